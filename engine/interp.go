package main

import (
	"fmt"
	"go/constant"
	"go/token"
	"go/types"
	"strings"
	"sync"

	"golang.org/x/tools/go/ssa"
)

// pathEnd terminates the current path (not an interpreted panic).
type pathEnd struct {
	kind string // infeasible | assume | unwind | inconclusive | deadlock | exit
	msg  string
}

// goPanic is a panic of the interpreted program.
type goPanic struct {
	val     Val
	runtime bool
	msg     string
	pos     string
}

type deferred struct {
	fn   Val
	args []Val
	pos  token.Pos
}

type fnInfo struct {
	idx map[ssa.Value]int
	n   int
}

var fnInfos sync.Map

func infoOf(fn *ssa.Function) *fnInfo {
	if v, ok := fnInfos.Load(fn); ok {
		return v.(*fnInfo)
	}
	fi := &fnInfo{idx: map[ssa.Value]int{}}
	add := func(v ssa.Value) {
		fi.idx[v] = fi.n
		fi.n++
	}
	for _, p := range fn.Params {
		add(p)
	}
	for _, p := range fn.FreeVars {
		add(p)
	}
	for _, b := range fn.Blocks {
		for _, ins := range b.Instrs {
			if v, ok := ins.(ssa.Value); ok {
				add(v)
			}
		}
	}
	fnInfos.Store(fn, fi)
	return fi
}

type frame struct {
	caller    *frame
	fn        *ssa.Function
	info      *fnInfo
	env       []Val
	block     *ssa.BasicBlock
	prevBlock *ssa.BasicBlock
	defers    []*deferred
	result    Val
	panicking bool
	panicV    *goPanic
	visits    []int
	curPos    token.Pos
}

func (fr *frame) get(m *Machine, v ssa.Value) Val {
	switch v := v.(type) {
	case *ssa.Const:
		return constVal(v)
	case *ssa.Global:
		return m.global(v)
	case *ssa.Function:
		return v
	case *ssa.Builtin:
		return v
	case nil:
		return nil
	}
	i, ok := fr.info.idx[v]
	if !ok {
		panic(fmt.Sprintf("get: no value for %T %v in %s", v, v.Name(), fr.fn))
	}
	return fr.env[i]
}

func (fr *frame) set(v ssa.Value, x Val) { fr.env[fr.info.idx[v]] = x }

func constVal(c *ssa.Const) Val {
	if c.Value == nil {
		return zero(c.Type())
	}
	t := c.Type().Underlying()
	if b, ok := t.(*types.Basic); ok {
		switch {
		case b.Info()&types.IsBoolean != 0:
			return constant.BoolVal(c.Value)
		case b.Info()&types.IsInteger != 0:
			w, s, _ := intKind(b)
			if i, ok := constant.Int64Val(constant.ToInt(c.Value)); ok {
				return norm(i, w, s)
			}
			u, _ := constant.Uint64Val(constant.ToInt(c.Value))
			return norm(int64(u), w, s)
		case b.Info()&types.IsFloat != 0:
			f, _ := constant.Float64Val(c.Value)
			if b.Kind() == types.Float32 {
				return float64(float32(f))
			}
			return f
		case b.Info()&types.IsString != 0:
			if c.Value.Kind() == constant.String {
				return constant.StringVal(c.Value)
			}
			return string(rune(c.Int64()))
		}
	}
	panic(fmt.Sprintf("constVal: unsupported constant %v of type %v", c, c.Type()))
}

// ------------------------------------------------------------------ machine

type Decision struct {
	K byte  // 'b' branch, 'c' concretise
	B bool  `json:",omitempty"`
	V int64 `json:",omitempty"`
}

type NdRec struct {
	Name string
	Kind string // int byte bool
	T    *Term
}

type Machine struct {
	ex       *Explorer
	prog     *ssa.Program
	solver   *Solver
	prefix   []Decision
	pos      int
	newWork  [][]Decision
	globals  map[*ssa.Global]*Val
	nd       []NdRec
	steps    int
	depth    int
	pcN      int
	observes []obsRec
	res      *PathResult
	methods  map[types.Type]map[string]*ssa.Function
	locks    map[*Val]int
	caseTag  []string
	unknownB int
	ovf      []*Term // LIA: no-overflow obligations
	stash    map[string]Val
	timers   []timerRec
	nowSeq   int
	fs       *fsState
	curFrame *frame
	facts    facts
	digitCache []digitEntry
	digitSeq   int
	zoneChecked map[*Term]bool
	syncMaps    map[*Val]*Map // state of sync.Map variables (stubs.go)
	syncPools   map[*Val][]Val // free lists of sync.Pool variables (stubs.go)
	relLimit    int     // preemptions right after a mutex release allowed on this path (verifPreemptAtRelease)
	relPreempts int     // preemptions right after a mutex release used on this path
	relYield    *thread // the thread that is at a release point (set for the scheduler's next pick)
	memo       map[string]bool
	tlocks     map[*Val]*lockState
	cur        *thread
	events     chan threadEvent
	aborting   bool
	sched      []int
}

type obsRec struct {
	Tag string
	V   Val
}

func (m *Machine) global(g *ssa.Global) *Val {
	if p, ok := m.globals[g]; ok {
		return p
	}
	p := new(Val)
	if m.ex.isModulePkg(g.Pkg) {
		*p = zero(g.Type().(*types.Pointer).Elem())
	} else {
		v, ok := m.externGlobal(g)
		if !ok {
			panic(&pathEnd{kind: "inconclusive", msg: "external global not modelled: " + g.String()})
		}
		*p = v
	}
	m.globals[g] = p
	return p
}

func (m *Machine) rtPanic(fr *frame, msg string) {
	panic(&goPanic{runtime: true, msg: msg, pos: m.posStr(fr)})
}

func (m *Machine) posStr(fr *frame) string {
	for f := fr; f != nil; f = f.caller {
		if f.curPos.IsValid() {
			p := m.prog.Fset.Position(f.curPos)
			fn := p.Filename
			if i := strings.LastIndex(fn, "/"); i >= 0 {
				fn = fn[i+1:]
			}
			return fmt.Sprintf("%s:%d (%s)", fn, p.Line, f.fn.Name())
		}
	}
	return "?"
}

func (m *Machine) stack(fr *frame) string {
	var sb strings.Builder
	for f := fr; f != nil; f = f.caller {
		p := m.prog.Fset.Position(f.curPos)
		fmt.Fprintf(&sb, "  %s %s:%d\n", f.fn.String(), p.Filename, p.Line)
	}
	return sb.String()
}

// ------------------------------------------------------------------ decisions

func (m *Machine) assertPC(t *Term) {
	m.pcN++
	m.solver.Assert(t)
	m.facts.learn(t)
}

// decide forks on a symbolic condition.
func (m *Machine) decide(c *Term) bool {
	if c.IsConst() {
		return c.K != 0
	}
	if known, v := m.facts.qeval(c); known {
		return v
	}
	// a condition already decided on this path is implied by the path condition
	key := termKey(c)
	if v, ok := m.memo[key]; ok {
		return v
	}
	defer func() {
		if r := recover(); r != nil {
			panic(r)
		}
	}()
	res := m.decide1(c)
	m.memo[key] = res
	if c.Op == "bnot" {
		m.memo[termKey(c.Args[0])] = !res
	} else {
		m.memo["(!"+key+")"] = !res
	}
	return res
}

func termKey(t *Term) string {
	var sb strings.Builder
	var rec func(t *Term)
	rec = func(t *Term) {
		switch t.Op {
		case "const":
			fmt.Fprintf(&sb, "%d:%d", t.K, t.W)
		case "var":
			sb.WriteString(t.Name)
		case "bnot":
			sb.WriteString("(!")
			rec(t.Args[0])
			sb.WriteByte(')')
		default:
			sb.WriteByte('(')
			sb.WriteString(t.Op)
			if t.Op == "conv" {
				fmt.Fprintf(&sb, "%d%v", t.W, t.S)
			}
			for _, a := range t.Args {
				sb.WriteByte(' ')
				rec(a)
			}
			sb.WriteByte(')')
		}
	}
	rec(t)
	return sb.String()
}

func (m *Machine) decide1(c *Term) bool {
	if m.pos < len(m.prefix) {
		d := m.prefix[m.pos]
		m.pos++
		if d.K != 'b' {
			panic(fmt.Sprintf("prefix mismatch: expected branch decision at %d, have %c", m.pos-1, d.K))
		}
		if d.B {
			m.assertPC(c)
		} else {
			m.assertPC(mkNot(c))
		}
		return d.B
	}
	m.res.Transitions++
	rT := m.solver.Check(c)
	var rF SatResult
	if rT == Unsat {
		rF = Sat // PC is satisfiable by construction
	} else {
		rF = m.solver.Check(mkNot(c))
	}
	if rT == Unknown || rF == Unknown {
		m.unknownB++
	}
	var take bool
	switch {
	case rT != Unsat && rF != Unsat:
		alt := append(append([]Decision{}, m.prefix...), Decision{K: 'b', B: false})
		m.newWork = append(m.newWork, alt)
		take = true
	case rT != Unsat:
		take = true
	case rF != Unsat:
		take = false
	default:
		panic(&pathEnd{kind: "infeasible"})
	}
	m.prefix = append(m.prefix, Decision{K: 'b', B: take})
	m.pos++
	if take {
		m.assertPC(c)
	} else {
		m.assertPC(mkNot(c))
	}
	return take
}

func (m *Machine) decideVal(v Val) bool {
	switch v := v.(type) {
	case bool:
		return v
	case *Term:
		return m.decide(v)
	}
	panic(fmt.Sprintf("decideVal: %T", v))
}

const concretizeLimit = 256

// concretize turns a symbolic integer into a concrete one by forking over its feasible values.
func (m *Machine) concretize(v Val) int64 {
	t, ok := v.(*Term)
	if !ok {
		return v.(int64)
	}
	if t.IsConst() {
		return t.K
	}
	if m.pos < len(m.prefix) {
		d := m.prefix[m.pos]
		m.pos++
		if d.K != 'c' {
			panic("prefix mismatch: expected concretise decision")
		}
		m.assertPC(mkCmp("eq", t, mkConst(d.V, t.W, t.S)))
		return d.V
	}
	m.res.Transitions++
	probe := mkVar("conc!probe", t.W, t.S)
	var vals []int64
	excl := tTrue
	for {
		r, mod := m.solver.CheckModel(mkAnd(excl, mkCmp("eq", probe, t)), []*Term{probe})
		if r == Unknown {
			panic(&pathEnd{kind: "inconclusive", msg: "solver unknown while concretising"})
		}
		if r == Unsat {
			break
		}
		val := norm(mod[probe.Name], t.W, t.S)
		vals = append(vals, val)
		excl = mkAnd(excl, mkNot(mkCmp("eq", t, mkConst(val, t.W, t.S))))
		if len(vals) > concretizeLimit {
			panic(&pathEnd{kind: "inconclusive", msg: "symbolic size too wide to concretise at " + m.posStr(m.curFrame)})
		}
	}
	if len(vals) == 0 {
		panic(&pathEnd{kind: "infeasible"})
	}
	for _, x := range vals[1:] {
		alt := append(append([]Decision{}, m.prefix...), Decision{K: 'c', V: x})
		m.newWork = append(m.newWork, alt)
	}
	m.prefix = append(m.prefix, Decision{K: 'c', V: vals[0]})
	m.pos++
	m.assertPC(mkCmp("eq", t, mkConst(vals[0], t.W, t.S)))
	return vals[0]
}

// index resolves an index value against length n, raising the Go panic when out of range.
func (m *Machine) index(fr *frame, iv Val, n int) int {
	if t, ok := iv.(*Term); ok {
		inb := mkAnd(mkCmp("le", mkConst(0, t.W, t.S), t), mkCmp("lt", t, mkConst(int64(n), t.W, t.S)))
		if !t.S {
			inb = mkCmp("lt", t, mkConst(int64(n), t.W, t.S))
		}
		if !m.decide(inb) {
			m.rtPanic(fr, fmt.Sprintf("index out of range [symbolic] with length %d", n))
		}
		return int(m.concretize(t))
	}
	i := iv.(int64)
	if i < 0 || i >= int64(n) {
		m.rtPanic(fr, fmt.Sprintf("index out of range [%d] with length %d", i, n))
	}
	return int(i)
}

// ------------------------------------------------------------------ calls

func (m *Machine) call(caller *frame, pos token.Pos, fn Val, args []Val) Val {
	switch f := fn.(type) {
	case *ssa.Function:
		if f == nil {
			m.rtPanic(caller, "call of nil function")
		}
		return m.callSSA(caller, pos, f, args, nil)
	case *Closure:
		if f == nil {
			m.rtPanic(caller, "call of nil function")
		}
		return m.callSSA(caller, pos, f.Fn, args, f.Env)
	case *ssa.Builtin:
		return m.callBuiltin(caller, pos, f, args)
	case *BoundMethod:
		return m.callSSA(caller, pos, f.Fn, append([]Val{f.Recv}, args...), nil)
	}
	panic(fmt.Sprintf("call: cannot call %T", fn))
}

const maxDepth = 400

func (m *Machine) callSSA(caller *frame, pos token.Pos, fn *ssa.Function, args []Val, env []Val) Val {
	name := fn.String()
	if fn.Origin() != nil {
		name = fn.Origin().String()
	}
	if st, ok := stubs[name]; ok {
		m.res.noteStub(name)
		return st(m, caller, fn, args)
	}
	if fn.Pkg != nil && m.ex.isModulePkg(fn.Pkg) {
		if st, ok := apiStubs[fn.Name()]; ok {
			return st(m, caller, args)
		}
	}
	if fn.Pkg != nil && !m.ex.isModulePkg(fn.Pkg) || fn.Pkg == nil && fn.Origin() != nil && fn.Origin().Pkg != nil && !m.ex.isModulePkg(fn.Origin().Pkg) {
		pk := fn.Pkg
		if pk == nil {
			pk = fn.Origin().Pkg
		}
		if fn.Name() == "init" {
			return nil // package initialisation of non-module packages is not executed
		}
		if !interpretablePkgs[pk.Pkg.Path()] {
			panic(&pathEnd{kind: "inconclusive", msg: "external function not modelled: " + name + " called at " + m.posStr(caller)})
		}
	}
	if fn.Blocks == nil {
		panic(&pathEnd{kind: "inconclusive", msg: "no body for " + name + " called at " + m.posStr(caller)})
	}
	if m.depth > maxDepth {
		panic(&pathEnd{kind: "unwind", msg: "recursion depth exceeded in " + name})
	}
	m.res.noteFunc(fn)
	fi := infoOf(fn)
	fr := &frame{caller: caller, fn: fn, info: fi, env: make([]Val, fi.n), visits: make([]int, len(fn.Blocks))}
	for i, p := range fn.Params {
		fr.env[fi.idx[p]] = args[i]
	}
	for i, fv := range fn.FreeVars {
		fr.env[fi.idx[fv]] = env[i]
	}
	fr.block = fn.Blocks[0]
	m.depth++
	saved := m.curFrame
	for fr.block != nil {
		m.runFrame(fr)
	}
	m.curFrame = saved
	m.depth--
	return fr.result
}

func (m *Machine) runDefers(fr *frame) {
	for len(fr.defers) > 0 {
		d := fr.defers[len(fr.defers)-1]
		fr.defers = fr.defers[:len(fr.defers)-1]
		m.runDefer(fr, d)
	}
	if fr.panicking {
		panic(fr.panicV)
	}
}

func (m *Machine) runDefer(fr *frame, d *deferred) {
	ok := false
	defer func() {
		if !ok {
			r := recover()
			gp, isGo := r.(*goPanic)
			if !isGo {
				panic(r)
			}
			// deferred call panicked: replaces the current panic
			fr.panicking = true
			fr.panicV = gp
		}
	}()
	m.call(fr, d.pos, d.fn, d.args)
	ok = true
}

func (m *Machine) runFrame(fr *frame) {
	defer func() {
		if fr.block == nil {
			return
		}
		r := recover()
		gp, isGo := r.(*goPanic)
		if !isGo {
			panic(r)
		}
		fr.panicking = true
		fr.panicV = gp
		m.runDefers(fr)
		fr.block = fr.fn.Recover
		if fr.block == nil {
			// recovered without a recover block: return zero results
			fr.result = zeroResult(fr.fn)
		}
	}()
	m.curFrame = fr
	for {
		b := fr.block
		fr.visits[b.Index]++
		if fr.visits[b.Index] > m.ex.cfg.Unwind {
			panic(&pathEnd{kind: "unwind", msg: fmt.Sprintf("block %d of %s visited more than %d times", b.Index, fr.fn, m.ex.cfg.Unwind)})
		}
	instrs:
		for _, ins := range b.Instrs {
			m.steps++
			if m.steps > m.ex.cfg.MaxSteps {
				panic(&pathEnd{kind: "unwind", msg: "step limit exceeded"})
			}
			if p := ins.Pos(); p.IsValid() {
				fr.curPos = p
			}
			switch m.visit(fr, ins) {
			case kReturn:
				return
			case kJump:
				break instrs
			}
		}
	}
}

func zeroResult(fn *ssa.Function) Val {
	res := fn.Signature.Results()
	switch res.Len() {
	case 0:
		return nil
	case 1:
		return zero(res.At(0).Type())
	}
	return zero(res)
}

const (
	kNext = iota
	kReturn
	kJump
)

func (m *Machine) visit(fr *frame, ins ssa.Instruction) int {
	switch ins := ins.(type) {
	case *ssa.DebugRef:
	case *ssa.UnOp:
		fr.set(ins, m.unop(fr, ins, fr.get(m, ins.X)))
	case *ssa.BinOp:
		fr.set(ins, m.binop(fr, ins.Op, ins.X.Type(), fr.get(m, ins.X), fr.get(m, ins.Y)))
	case *ssa.Call:
		fn, args := m.prepareCall(fr, &ins.Call)
		fr.set(ins, m.call(fr, ins.Pos(), fn, args))
		m.curFrame = fr
	case *ssa.ChangeInterface:
		fr.set(ins, fr.get(m, ins.X))
	case *ssa.ChangeType:
		fr.set(ins, fr.get(m, ins.X))
	case *ssa.Convert:
		fr.set(ins, m.conv(fr, ins.Type(), ins.X.Type(), fr.get(m, ins.X)))
	case *ssa.SliceToArrayPointer:
		s := fr.get(m, ins.X).(Slice)
		n := ins.Type().(*types.Pointer).Elem().Underlying().(*types.Array).Len()
		if int64(len(s)) < n {
			m.rtPanic(fr, "slice to array pointer: slice too short")
		}
		if s == nil {
			fr.set(ins, (*Val)(nil))
		} else {
			p := new(Val)
			*p = Array(s[:n:n])
			fr.set(ins, p)
		}
	case *ssa.MakeInterface:
		fr.set(ins, Iface{T: ins.X.Type(), V: fr.get(m, ins.X)})
	case *ssa.Extract:
		fr.set(ins, fr.get(m, ins.Tuple).(Tuple)[ins.Index])
	case *ssa.Slice:
		fr.set(ins, m.slice(fr, ins))
	case *ssa.Return:
		switch len(ins.Results) {
		case 0:
		case 1:
			fr.result = fr.get(m, ins.Results[0])
		default:
			t := make(Tuple, len(ins.Results))
			for i, r := range ins.Results {
				t[i] = fr.get(m, r)
			}
			fr.result = t
		}
		fr.block = nil
		return kReturn
	case *ssa.RunDefers:
		m.runDefers(fr)
		m.curFrame = fr
	case *ssa.Panic:
		v := fr.get(m, ins.X)
		panic(&goPanic{val: v, msg: m.panicText(fr, v), pos: m.posStr(fr)})
	case *ssa.Send:
		m.chanSend(fr, fr.get(m, ins.Chan), fr.get(m, ins.X))
	case *ssa.Store:
		p := fr.get(m, ins.Addr).(*Val)
		if p == nil {
			m.rtPanic(fr, "nil pointer dereference (store)")
		}
		*p = copyVal(fr.get(m, ins.Val))
	case *ssa.If:
		succ := 1
		if m.decideVal(fr.get(m, ins.Cond)) {
			succ = 0
		}
		fr.prevBlock, fr.block = fr.block, fr.block.Succs[succ]
		return kJump
	case *ssa.Jump:
		fr.prevBlock, fr.block = fr.block, fr.block.Succs[0]
		return kJump
	case *ssa.Defer:
		fn, args := m.prepareCall(fr, &ins.Call)
		fr.defers = append(fr.defers, &deferred{fn: fn, args: args, pos: ins.Pos()})
	case *ssa.Go:
		fn, args := m.prepareCall(fr, &ins.Call)
		m.goStmt(fr, fn, args)
	case *ssa.MakeChan:
		n := int(m.concretize(fr.get(m, ins.Size)))
		fr.set(ins, &Chan{cap: n})
	case *ssa.Alloc:
		p := new(Val)
		*p = zero(ins.Type().(*types.Pointer).Elem())
		fr.set(ins, p)
	case *ssa.MakeSlice:
		n := m.concretize(fr.get(m, ins.Len))
		c := m.concretize(fr.get(m, ins.Cap))
		if n < 0 || c < n || c > 1<<24 {
			m.rtPanic(fr, fmt.Sprintf("makeslice: len %d cap %d out of range", n, c))
		}
		s := make(Slice, n, c)
		et := ins.Type().Underlying().(*types.Slice).Elem()
		full := s[:c]
		for i := range full {
			full[i] = zero(et)
		}
		fr.set(ins, s)
	case *ssa.MakeMap:
		mt := ins.Type().Underlying().(*types.Map)
		fr.set(ins, &Map{kt: mt.Key(), vt: mt.Elem()})
	case *ssa.Range:
		fr.set(ins, m.rangeIter(fr, ins.X.Type(), fr.get(m, ins.X)))
	case *ssa.Next:
		fr.set(ins, fr.get(m, ins.Iter).(*iter).next(m))
	case *ssa.FieldAddr:
		p := fr.get(m, ins.X).(*Val)
		if p == nil {
			m.rtPanic(fr, "nil pointer dereference (field address)")
		}
		st, ok := (*p).(Struct)
		if !ok {
			panic(fmt.Sprintf("FieldAddr on %T at %s", *p, m.posStr(fr)))
		}
		fr.set(ins, &st[ins.Field])
	case *ssa.Field:
		fr.set(ins, fr.get(m, ins.X).(Struct)[ins.Field])
	case *ssa.IndexAddr:
		x := fr.get(m, ins.X)
		iv := fr.get(m, ins.Index)
		switch x := x.(type) {
		case *Val:
			if x == nil {
				m.rtPanic(fr, "nil pointer dereference (index address)")
			}
			a := (*x).(Array)
			fr.set(ins, &a[m.index(fr, iv, len(a))])
		case Slice:
			fr.set(ins, &x[m.index(fr, iv, len(x))])
		default:
			panic(fmt.Sprintf("IndexAddr on %T", x))
		}
	case *ssa.Index:
		x := fr.get(m, ins.X)
		iv := fr.get(m, ins.Index)
		switch x := x.(type) {
		case Array:
			fr.set(ins, x[m.index(fr, iv, len(x))])
		case string, *SymStr:
			b := strBytes(x)
			fr.set(ins, b[m.index(fr, iv, len(b))])
		case Slice:
			fr.set(ins, x[m.index(fr, iv, len(x))])
		default:
			panic(fmt.Sprintf("Index on %T", x))
		}
	case *ssa.Lookup:
		fr.set(ins, m.lookup(fr, ins, fr.get(m, ins.X), fr.get(m, ins.Index)))
	case *ssa.MapUpdate:
		mp := fr.get(m, ins.Map).(*Map)
		if mp == nil {
			m.rtPanic(fr, "assignment to entry in nil map")
		}
		m.mapSet(mp, fr.get(m, ins.Key), copyVal(fr.get(m, ins.Value)))
	case *ssa.TypeAssert:
		fr.set(ins, m.typeAssert(fr, ins, fr.get(m, ins.X).(Iface)))
	case *ssa.MakeClosure:
		var env []Val
		for _, b := range ins.Bindings {
			env = append(env, fr.get(m, b))
		}
		fr.set(ins, &Closure{Fn: ins.Fn.(*ssa.Function), Env: env})
	case *ssa.Phi:
		for i, pred := range ins.Block().Preds {
			if fr.prevBlock == pred {
				fr.set(ins, fr.get(m, ins.Edges[i]))
				break
			}
		}
	case *ssa.Select:
		fr.set(ins, m.selectStmt(fr, ins))
	default:
		panic(fmt.Sprintf("unexpected instruction: %T", ins))
	}
	return kNext
}

func (m *Machine) panicText(fr *frame, v Val) string {
	if it, ok := v.(Iface); ok {
		if it.T == nil {
			return "panic(nil)"
		}
		if s, ok := it.V.(string); ok {
			return s
		}
		if f := m.lookupMethod(it.T, "Error"); f != nil {
			defer func() { recover() }()
			r := m.callSSA(fr, token.NoPos, f, []Val{it.V}, nil)
			if s, ok := r.(string); ok {
				return s
			}
		}
		return "panic of type " + it.T.String()
	}
	return "panic"
}

func (m *Machine) lookupMethod(T types.Type, name string) *ssa.Function {
	if mm, ok := m.methods[T]; ok {
		if f, ok := mm[name]; ok {
			return f
		}
	} else {
		m.methods[T] = map[string]*ssa.Function{}
	}
	var pkg *types.Package
	if !token.IsExported(name) {
		// unexported: find package of the named type
		t := T
		if p, ok := t.(*types.Pointer); ok {
			t = p.Elem()
		}
		if n, ok := types.Unalias(t).(*types.Named); ok && n.Obj().Pkg() != nil {
			pkg = n.Obj().Pkg()
		}
	}
	sel := m.prog.MethodSets.MethodSet(T).Lookup(pkg, name)
	var f *ssa.Function
	if sel != nil {
		f = m.prog.MethodValue(sel)
	}
	m.methods[T][name] = f
	return f
}

func (m *Machine) prepareCall(fr *frame, c *ssa.CallCommon) (Val, []Val) {
	var fn Val
	var args []Val
	if c.Method == nil {
		fn = fr.get(m, c.Value)
	} else {
		recv := fr.get(m, c.Value).(Iface)
		if recv.T == nil {
			m.rtPanic(fr, "nil pointer dereference (method call on nil interface "+c.Method.Name()+")")
		}
		name := c.Method.Name()
		var f *ssa.Function
		if !token.IsExported(name) {
			sel := m.prog.MethodSets.MethodSet(recv.T).Lookup(c.Method.Pkg(), name)
			if sel != nil {
				f = m.prog.MethodValue(sel)
			}
		} else {
			f = m.lookupMethod(recv.T, name)
		}
		if f == nil {
			panic(fmt.Sprintf("method %s not found on %v", name, recv.T))
		}
		fn = f
		args = append(args, recv.V)
	}
	for _, a := range c.Args {
		args = append(args, fr.get(m, a))
	}
	return fn, args
}

func (m *Machine) goStmt(fr *frame, fn Val, args []Val) {
	panic(&pathEnd{kind: "inconclusive", msg: "go statement at " + m.posStr(fr)})
}

// ------------------------------------------------------------------ slices

func (m *Machine) slice(fr *frame, ins *ssa.Slice) Val {
	x := fr.get(m, ins.X)
	var lo, hi, max Val
	if ins.Low != nil {
		lo = fr.get(m, ins.Low)
	}
	if ins.High != nil {
		hi = fr.get(m, ins.High)
	}
	if ins.Max != nil {
		max = fr.get(m, ins.Max)
	}
	var l, c int
	var base []Val
	isStr := false
	switch x := x.(type) {
	case Slice:
		base, l, c = x[:cap(x)], len(x), cap(x)
	case *Val:
		if x == nil {
			m.rtPanic(fr, "nil pointer dereference (slice of array pointer)")
		}
		a := (*x).(Array)
		base, l, c = a, len(a), len(a)
	case string, *SymStr:
		isStr = true
		base = strBytes(x)
		l, c = len(base), len(base)
	default:
		panic(fmt.Sprintf("slice of %T", x))
	}
	// symbolic bounds: decide validity, then concretise
	symbolic := false
	for _, b := range []Val{lo, hi, max} {
		if _, ok := b.(*Term); ok {
			symbolic = true
		}
	}
	if symbolic {
		it := func(v Val, def int64) *Term {
			if v == nil {
				return mkConst(def, 64, true)
			}
			return toTerm(v, types.Typ[types.Int])
		}
		hdef := int64(l)
		tl, tm := it(lo, 0), it(max, int64(c))
		th := it(hi, hdef)
		upper := mkConst(int64(c), 64, true)
		if isStr {
			upper = mkConst(int64(l), 64, true)
		}
		valid := mkAnd(mkCmp("le", mkConst(0, 64, true), tl), mkAnd(mkCmp("le", tl, th), mkAnd(mkCmp("le", th, tm), mkCmp("le", tm, upper))))
		if !m.decide(valid) {
			m.rtPanic(fr, "slice bounds out of range [symbolic]")
		}
	}
	li, hiI, mi := int64(0), int64(l), int64(c)
	if lo != nil {
		li = m.concretize(lo)
	}
	if hi != nil {
		hiI = m.concretize(hi)
	}
	if max != nil {
		mi = m.concretize(max)
	}
	upper := int64(c)
	if isStr {
		upper = int64(l)
		mi = hiI
	}
	if li < 0 || li > hiI || hiI > mi || mi > upper {
		m.rtPanic(fr, fmt.Sprintf("slice bounds out of range [%d:%d:%d] with capacity %d", li, hiI, mi, upper))
	}
	if isStr {
		return mkStr(base[li:hiI])
	}
	if s, ok := x.(Slice); ok && s == nil {
		return Slice(nil)
	}
	return Slice(base[li:hiI:mi])
}

// ------------------------------------------------------------------ maps

func (m *Machine) keyEq(mp *Map, a, b Val) Val {
	return equals(mp.kt, a, b)
}

func (m *Machine) mapFind(mp *Map, k Val) *mapEntry {
	if mp == nil {
		return nil
	}
	for _, e := range mp.entries {
		if m.decideVal(m.keyEq(mp, e.k, k)) {
			return e
		}
	}
	return nil
}

func (m *Machine) mapSet(mp *Map, k, v Val) {
	if e := m.mapFind(mp, k); e != nil {
		*e.v = v
		return
	}
	p := new(Val)
	*p = v
	mp.entries = append(mp.entries, &mapEntry{k: k, v: p})
}

func (m *Machine) mapDelete(mp *Map, k Val) {
	if mp == nil {
		return
	}
	for i, e := range mp.entries {
		if m.decideVal(m.keyEq(mp, e.k, k)) {
			mp.entries = append(mp.entries[:i:i], mp.entries[i+1:]...)
			return
		}
	}
}

func (m *Machine) lookup(fr *frame, ins *ssa.Lookup, x, k Val) Val {
	switch x := x.(type) {
	case *Map:
		var v Val
		ok := false
		if e := m.mapFind(x, k); e != nil {
			v, ok = copyVal(*e.v), true
		} else {
			v = zero(ins.X.Type().Underlying().(*types.Map).Elem())
		}
		if ins.CommaOk {
			return Tuple{v, ok}
		}
		return v
	case string, *SymStr:
		b := strBytes(x)
		return b[m.index(fr, k, len(b))]
	}
	panic(fmt.Sprintf("lookup on %T", x))
}

type iter struct {
	entries []*mapEntry
	str     []Val
	isStr   bool
	i       int
}

func (it *iter) next(m *Machine) Val {
	if it.isStr {
		if it.i >= len(it.str) {
			return Tuple{false, int64(0), int64(0)}
		}
		c, ok := it.str[it.i].(int64)
		if !ok || c >= 0x80 {
			panic(&pathEnd{kind: "inconclusive", msg: "range over string with symbolic or non-ASCII bytes"})
		}
		it.i++
		return Tuple{true, int64(it.i - 1), c}
	}
	if it.i >= len(it.entries) {
		return Tuple{false, nil, nil}
	}
	e := it.entries[it.i]
	it.i++
	return Tuple{true, e.k, copyVal(*e.v)}
}

func (m *Machine) rangeIter(fr *frame, t types.Type, x Val) Val {
	switch x := x.(type) {
	case *Map:
		if x == nil {
			return &iter{}
		}
		es := append([]*mapEntry{}, x.entries...)
		if m.ex.cfg.MapReverse {
			for i, j := 0, len(es)-1; i < j; i, j = i+1, j-1 {
				es[i], es[j] = es[j], es[i]
			}
		}
		return &iter{entries: es}
	case string, *SymStr:
		return &iter{isStr: true, str: strBytes(x)}
	}
	panic(fmt.Sprintf("range over %T", x))
}

// ------------------------------------------------------------------ type assertions

func (m *Machine) typeAssert(fr *frame, ins *ssa.TypeAssert, itf Iface) Val {
	var ok bool
	var v Val
	if it, isI := ins.AssertedType.Underlying().(*types.Interface); isI {
		ok = itf.T != nil && types.Implements(itf.T, it)
		if ok {
			v = itf
		} else {
			v = Iface{}
		}
	} else {
		ok = itf.T != nil && types.Identical(itf.T, ins.AssertedType)
		if ok {
			v = itf.V
		} else {
			v = zero(ins.AssertedType)
		}
	}
	if ins.CommaOk {
		return Tuple{v, ok}
	}
	if !ok {
		d := "nil"
		if itf.T != nil {
			d = itf.T.String()
		}
		m.rtPanic(fr, fmt.Sprintf("interface conversion: interface is %s, not %s", d, ins.AssertedType))
	}
	return v
}

// ------------------------------------------------------------------ channels

func (m *Machine) chanSend(fr *frame, cv Val, x Val) {
	c := cv.(*Chan)
	if c == nil {
		panic(&pathEnd{kind: "deadlock", msg: "send on nil channel at " + m.posStr(fr)})
	}
	if c.closed {
		panic(&goPanic{runtime: false, msg: "send on closed channel", pos: m.posStr(fr), val: Iface{}})
	}
	if len(c.buf) >= c.cap {
		panic(&pathEnd{kind: "deadlock", msg: "send would block at " + m.posStr(fr)})
	}
	c.buf = append(c.buf, x)
}

func (m *Machine) chanRecv(fr *frame, cv Val, et types.Type, commaOk bool) Val {
	c := cv.(*Chan)
	if c == nil {
		panic(&pathEnd{kind: "deadlock", msg: "receive on nil channel at " + m.posStr(fr)})
	}
	if len(c.buf) > 0 {
		v := c.buf[0]
		c.buf = c.buf[1:]
		if commaOk {
			return Tuple{v, true}
		}
		return v
	}
	if c.closed {
		if commaOk {
			return Tuple{zero(et), false}
		}
		return zero(et)
	}
	panic(&pathEnd{kind: "deadlock", msg: "receive would block at " + m.posStr(fr)})
}

func (m *Machine) selectStmt(fr *frame, ins *ssa.Select) Val {
	// result tuple: (index int, recvOk bool, r_0 T_0, ... r_n-1 T_n-1)
	nrecv := 0
	for _, st := range ins.States {
		if st.Dir == types.RecvOnly {
			nrecv++
		}
	}
	res := make(Tuple, 2+nrecv)
	res[0], res[1] = int64(-1), false
	ri := 2
	recvIdx := map[int]int{}
	for i, st := range ins.States {
		if st.Dir == types.RecvOnly {
			recvIdx[i] = ri
			res[ri] = zero(st.Chan.Type().Underlying().(*types.Chan).Elem())
			ri++
		}
	}
	for i, st := range ins.States {
		c := fr.get(m, st.Chan).(*Chan)
		if c == nil {
			continue
		}
		if st.Dir == types.SendOnly {
			if c.closed {
				panic(&goPanic{msg: "send on closed channel", pos: m.posStr(fr), val: Iface{}})
			}
			if len(c.buf) < c.cap {
				c.buf = append(c.buf, fr.get(m, st.Send))
				res[0] = int64(i)
				return res
			}
		} else {
			if len(c.buf) > 0 {
				res[recvIdx[i]] = c.buf[0]
				c.buf = c.buf[1:]
				res[0], res[1] = int64(i), true
				return res
			}
			if c.closed {
				res[0] = int64(i)
				return res
			}
		}
	}
	if !ins.Blocking {
		return res
	}
	panic(&pathEnd{kind: "deadlock", msg: "select would block at " + m.posStr(fr)})
}
