package main

import (
	"fmt"
	"go/token"
	"math"
)

// SymFloat is a float64 known only through an integer: with I != nil it is the correctly rounded conversion
// float64(I) of the signed 64-bit integer term I (what Go's int→float conversion and strconv.ParseFloat of an all-digit
// text both produce); with I == nil only the sign is known (NonNeg). There is no floating-point theory in the
// encoding: comparisons with zero are exact for every I (float64 conversion preserves sign and zero), comparisons
// between whole numbers and decimal formatting are exact while |I| <= 2^53; every other use falls back to
// concretising I (an explored fork over its feasible values) or ends the path inconclusive.
type SymFloat struct {
	I      *Term
	NonNeg bool
}

const exactFloatInt = int64(1) << 53

func (m *Machine) sfExact(f *SymFloat) bool {
	if f.I == nil {
		return false
	}
	in := mkAnd(mkCmp("le", mkConst(-exactFloatInt, 64, true), f.I), mkCmp("le", f.I, mkConst(exactFloatInt, 64, true)))
	return m.decide(in)
}

// sfConc turns a symbolic float into a concrete one by concretising its integer.
func (m *Machine) sfConc(v Val) float64 {
	switch v := v.(type) {
	case float64:
		return v
	case *SymFloat:
		if v.I == nil {
			panic(&pathEnd{kind: "inconclusive", msg: "abstract float (value of a non-integer or very long symbolic text) used in arithmetic at " + m.posStr(m.curFrame)})
		}
		return float64(m.concretize(v.I))
	}
	panic(fmt.Sprintf("sfConc: %T", v))
}

func sfCmp(op token.Token, a, b *Term) Val {
	switch op {
	case token.LSS:
		return fromTerm(mkCmp("lt", a, b))
	case token.LEQ:
		return fromTerm(mkCmp("le", a, b))
	case token.GTR:
		return fromTerm(mkCmp("lt", b, a))
	case token.GEQ:
		return fromTerm(mkCmp("le", b, a))
	case token.EQL:
		return fromTerm(mkCmp("eq", a, b))
	case token.NEQ:
		return fromTerm(mkNot(mkCmp("eq", a, b)))
	}
	panic("sfCmp")
}

var flipCmp = map[token.Token]token.Token{token.LSS: token.GTR, token.GTR: token.LSS, token.LEQ: token.GEQ, token.GEQ: token.LEQ, token.EQL: token.EQL, token.NEQ: token.NEQ}

func concFloatOp(op token.Token, x, y float64) Val {
	switch op {
	case token.ADD:
		return x + y
	case token.SUB:
		return x - y
	case token.MUL:
		return x * y
	case token.QUO:
		return x / y
	case token.LSS:
		return x < y
	case token.LEQ:
		return x <= y
	case token.GTR:
		return x > y
	case token.GEQ:
		return x >= y
	case token.EQL:
		return x == y
	case token.NEQ:
		return x != y
	}
	panic(fmt.Sprintf("float op %v", op))
}

// floatBinop: at least one operand is a *SymFloat.
func (m *Machine) floatBinop(fr *frame, op token.Token, x, y Val) Val {
	_, isCmp := flipCmp[op]
	if isCmp {
		xf, xs := x.(*SymFloat)
		yf, ys := y.(*SymFloat)
		if xs && ys && xf.I != nil && yf.I != nil {
			if m.sfExact(xf) && m.sfExact(yf) {
				return sfCmp(op, xf.I, yf.I)
			}
		} else if xs != ys {
			f, c, o := xf, y, op
			if ys {
				f, c, o = yf, x, flipCmp[op]
			}
			cv := c.(float64)
			if f.I == nil {
				if cv == 0 && f.NonNeg {
					switch o {
					case token.LSS:
						return false
					case token.GEQ:
						return true
					}
				}
				panic(&pathEnd{kind: "inconclusive", msg: "comparison of an abstract float at " + m.posStr(fr)})
			}
			if cv == 0 {
				return sfCmp(o, f.I, mkConst(0, 64, true))
			}
			if cv == math.Trunc(cv) && math.Abs(cv) <= float64(exactFloatInt) && m.sfExact(f) {
				return sfCmp(o, f.I, mkConst(int64(cv), 64, true))
			}
		}
	}
	return concFloatOp(op, m.sfConc(x), m.sfConc(y))
}

// sfFromDigits builds the value of an all-digit text (at most 18 digits) as a SymFloat.
func (m *Machine) sfFromDigits(b []Val, neg bool) Val {
	var acc *Term
	// the bytes may be the very digits the formatting model produced for some integer: then that integer is the value
	for _, c := range m.digitCache {
		if len(c.d) != len(b) || c.t.W != 64 || !c.t.S {
			continue
		}
		same := true
		for i := range b {
			x, ok1 := b[i].(*Term)
			y, ok2 := c.d[i].(*Term)
			if !ok1 || !ok2 || !(x == y || sameTerm(x, y)) {
				same = false
				break
			}
		}
		if same {
			acc = c.t
			break
		}
	}
	if acc == nil {
		// flat sum of digit times power of ten (the shape the digit model asserts, which keeps the queries linear and aligned)
		acc = mkConst(0, 64, true)
		p := int64(1)
		for k := len(b) - 1; k >= 0; k-- {
			d := mkArith("sub", mkConv(byteTerm(b[k]), 64, true), mkConst('0', 64, true))
			acc = mkArith("add", acc, mkArith("mul", d, mkConst(p, 64, true)))
			p *= 10
		}
	}
	if !acc.IsConst() && (len(b) == 1 || m.decide(mkNot(mkCmp("eq", byteTerm(b[0]), mkConst('0', 8, false))))) {
		// canonical text: these bytes are the decimal digits of the value, which the formatting model may reuse
		m.digitCache = append(m.digitCache, digitEntry{t: acc, min: 0, d: append([]Val{}, b...)})
	}
	if neg {
		if m.decide(mkCmp("eq", acc, mkConst(0, 64, true))) {
			return math.Copysign(0, -1)
		}
		acc = mkArith("sub", mkConst(0, 64, true), acc)
	}
	if acc.IsConst() {
		return float64(acc.K)
	}
	return &SymFloat{I: acc}
}
