package main

import (
	"fmt"
	"os"
	"path/filepath"
	"sort"
	"strings"

	"golang.org/x/tools/go/packages"
	"golang.org/x/tools/go/ssa"
	"golang.org/x/tools/go/ssa/ssautil"
)

const modulePath = "github.com/quickfixgo/quickfix"

// harness directories under /verif/harness map to package directories of the repo
var harnessDirs = map[string]string{
	"root":     ".",
	"internal": "internal",
	"dd":       "datadictionary",
	"file":     "store/file",
	"sql":      "store/sql",
}

func pkgPathOf(dir string) string {
	d := harnessDirs[dir]
	if d == "." {
		return modulePath
	}
	return modulePath + "/" + d
}

func pkgNameOf(dir string) string {
	switch dir {
	case "root":
		return "quickfix"
	case "internal":
		return "internal"
	case "dd":
		return "datadictionary"
	case "file":
		return "file"
	case "sql":
		return "sql"
	}
	return dir
}

func goEnv() []string {
	env := os.Environ()
	return append(env, "GOFLAGS=-mod=mod", "GOPROXY=off", "GOSUMDB=off", "GOTOOLCHAIN=local")
}

// overlayFor builds the overlay (virtual path -> real path) injecting harness files into repo packages.
func overlayFor(repo, verif string, dirs []string, genDir string) (map[string]string, error) {
	ov := map[string]string{}
	api, err := os.ReadFile(filepath.Join(verif, "harness", "api.go.tmpl"))
	if err != nil {
		return nil, err
	}
	for _, d := range dirs {
		pdir := filepath.Join(repo, harnessDirs[d])
		files, _ := filepath.Glob(filepath.Join(verif, "harness", d, "*.go"))
		sort.Strings(files)
		for _, f := range files {
			ov[filepath.Join(pdir, "zz_verif_"+filepath.Base(f))] = f
		}
		// generated API file for this package
		os.MkdirAll(filepath.Join(genDir, d), 0o755)
		gen := filepath.Join(genDir, d, "api.go")
		src := strings.Replace(string(api), "package PKG", "package "+pkgNameOf(d), 1)
		if err := os.WriteFile(gen, []byte(src), 0o644); err != nil {
			return nil, err
		}
		ov[filepath.Join(pdir, "zz_verif_api.go")] = gen
	}
	// observation point for timer arming: internal/event_timer.go of the CURRENT tree with one call inserted
	// into Reset (never committed; used identically by the symbolic run and by native replay)
	if src, err := os.ReadFile(filepath.Join(repo, "internal", "event_timer.go")); err == nil {
		const anchor = "\tt.timer.Reset(timeout)"
		if strings.Count(string(src), anchor) == 1 {
			patched := strings.Replace(string(src), anchor, "\tif VerifTimerHook != nil {\n\t\tVerifTimerHook(t, timeout)\n\t\treturn\n\t}\n"+anchor, 1)
			patched += "\n// VerifTimerHook observes Reset (inserted by the verification overlay).\nvar VerifTimerHook func(*EventTimer, time.Duration)\n"
			os.MkdirAll(filepath.Join(genDir, "internal_hook"), 0o755)
			gen := filepath.Join(genDir, "internal_hook", "event_timer.go")
			if err := os.WriteFile(gen, []byte(patched), 0o644); err == nil {
				ov[filepath.Join(repo, "internal", "event_timer.go")] = gen
			}
		}
	}
	// session.go: the two session mutexes become harness types whose Lock/Unlock are scheduling points of the
	// logical-thread scheduler (symbolically and in native replay); generated from the CURRENT file
	for _, d := range dirs {
		if d != "root" {
			continue
		}
		src, err := os.ReadFile(filepath.Join(repo, "session.go"))
		if err != nil {
			continue
		}
		txt := string(src)
		if strings.Count(txt, "sendMutex sync.Mutex") == 1 && strings.Count(txt, "resendMutex sync.RWMutex") == 1 {
			txt = strings.Replace(txt, "sendMutex sync.Mutex", "sendMutex verifMutex", 1)
			txt = strings.Replace(txt, "resendMutex sync.RWMutex", "resendMutex verifRWMutex", 1)
			os.MkdirAll(filepath.Join(genDir, "root_mutex"), 0o755)
			gen := filepath.Join(genDir, "root_mutex", "session.go")
			if err := os.WriteFile(gen, []byte(txt), 0o644); err == nil {
				ov[filepath.Join(repo, "session.go")] = gen
			}
		}
	}
	// parser.go: the default read-buffer size is scaled down (4096 -> 4) so that buffer growth, compaction and anything
	// keyed on that constant happen within the stream lengths the harnesses explore; generated from the CURRENT file
	for _, d := range dirs {
		if d != "root" {
			continue
		}
		src, err := os.ReadFile(filepath.Join(repo, "parser.go"))
		if err != nil {
			continue
		}
		txt := string(src)
		if strings.Count(txt, "defaultBufSize = 4096") == 1 {
			txt = strings.Replace(txt, "defaultBufSize = 4096", "defaultBufSize = 4", 1)
			os.MkdirAll(filepath.Join(genDir, "root_parser"), 0o755)
			gen := filepath.Join(genDir, "root_parser", "parser.go")
			if err := os.WriteFile(gen, []byte(txt), 0o644); err == nil {
				ov[filepath.Join(repo, "parser.go")] = gen
			}
		}
	}
	// store/sql runs over the in-memory stand-in for database/sql of harness/sql/vsql.go
	for _, d := range dirs {
		if d != "sql" {
			continue
		}
		src, err := os.ReadFile(filepath.Join(repo, "store", "sql", "sql_store.go"))
		if err != nil {
			continue
		}
		out := strings.NewReplacer("*sql.DB", "*verifSQLDB", "sql.Open(", "verifSQLOpen(", "sql.ErrNoRows", "verifSQLErrNoRows").Replace(string(src))
		if !strings.Contains(out, "sql.") {
			out = strings.Replace(out, "\t\"database/sql\"\n", "\t_ \"database/sql\"\n", 1)
		}
		os.MkdirAll(filepath.Join(genDir, "sql_vdb"), 0o755)
		gen := filepath.Join(genDir, "sql_vdb", "sql_store.go")
		if err := os.WriteFile(gen, []byte(out), 0o644); err == nil {
			ov[filepath.Join(repo, "store", "sql", "sql_store.go")] = gen
		}
	}
	// store/file runs over the in-memory file system of harness/file/vfs.go: overlay copies of the CURRENT
	// file_store.go / util.go with the package-os identifiers renamed (never committed)
	for _, d := range dirs {
		if d != "file" {
			continue
		}
		repl := strings.NewReplacer("*os.File", "*verifFile", "os.OpenFile(", "verifOpenFile(", "os.ReadFile(", "verifReadFile(",
			"os.Remove(", "verifRemove(", "os.MkdirAll(", "verifMkdirAll(", "os.IsNotExist(", "verifIsNotExist(",
			"filepath.Glob(", "verifGlob(", "os.O_RDWR", "verifO_RDWR", "os.O_CREATE", "verifO_CREATE", "os.O_TRUNC", "verifO_TRUNC", "os.O_APPEND", "verifO_APPEND", "os.O_WRONLY", "verifO_WRONLY", "os.O_RDONLY", "verifO_RDONLY", "os.ModePerm", "verifModePerm", "os.FileMode", "verifFileMode",
			"\t\"os\"\n", "\t_ \"os\"\n")
		for _, fn := range []string{"file_store.go", "util.go"} {
			src, err := os.ReadFile(filepath.Join(repo, "store", "file", fn))
			if err != nil {
				continue
			}
			os.MkdirAll(filepath.Join(genDir, "file_vfs"), 0o755)
			gen := filepath.Join(genDir, "file_vfs", fn)
			out := repl.Replace(string(src))
			if !strings.Contains(out, "filepath.") {
				out = strings.Replace(out, "\t\"path/filepath\"\n", "\t_ \"path/filepath\"\n", 1)
			}
			if err := os.WriteFile(gen, []byte(out), 0o644); err == nil {
				ov[filepath.Join(repo, "store", "file", fn)] = gen
			}
		}
	}
	return ov, nil
}

type Loaded struct {
	prog *ssa.Program
	pkgs map[string]*ssa.Package // by harness dir
}

func loadProgram(repo string, dirs []string, ov map[string]string) (*Loaded, error) {
	overlay := map[string][]byte{}
	for virt, real := range ov {
		b, err := os.ReadFile(real)
		if err != nil {
			return nil, err
		}
		overlay[virt] = b
	}
	cfg := &packages.Config{
		Mode:       packages.LoadAllSyntax,
		Dir:        repo,
		Overlay:    overlay,
		BuildFlags: []string{"-tags=verif"},
		Env:        goEnv(),
	}
	var patterns []string
	for _, d := range dirs {
		patterns = append(patterns, pkgPathOf(d))
	}
	pkgs, err := packages.Load(cfg, patterns...)
	if err != nil {
		return nil, err
	}
	var errs []string
	packages.Visit(pkgs, nil, func(p *packages.Package) {
		for _, e := range p.Errors {
			errs = append(errs, e.Error())
		}
	})
	if len(errs) > 0 {
		if len(errs) > 12 {
			errs = errs[:12]
		}
		return nil, fmt.Errorf("harness does not compile against the tree:\n  %s", strings.Join(errs, "\n  "))
	}
	prog, spkgs := ssautil.AllPackages(pkgs, ssa.InstantiateGenerics)
	prog.Build()
	l := &Loaded{prog: prog, pkgs: map[string]*ssa.Package{}}
	for i, d := range dirs {
		l.pkgs[d] = spkgs[i]
	}
	return l, nil
}
