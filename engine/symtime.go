package main

import (
	"fmt"
	"math"
	"sync"
	"time"
)

// Abstract calendar for symbolic schedules (integer encoding only).
// An instant is Abs = seconds since 2024-01-07T00:00:00Z (a Sunday); it carries the zone it is expressed in (fixed
// offset, or a real zone with shifts whose offset is a case split over the instant). Year()/Month()/Day() return (2024, 1, 7+D) where D is the local day number: the code only
// feeds them back into time.Date, which is modelled as the inverse (Go normalises day-of-month overflow the same way).

var symEpoch = time.Date(2024, time.January, 7, 0, 0, 0, 0, time.UTC)

type SymTime struct {
	Abs        *Term
	Loc        *time.Location
	D, H, M, S *Term  // calendar decomposition valid in zones with the signature DecZone (nil if not available)
	DecZone    string // "fixed:<offset>" or "tz:<name>:<pointer>"
}

func i64c(v int64) *Term { return mkConst(v, 64, true) }

// A zone is a list of periods [from, next.from) with a constant offset, read from the real *time.Location (tz database
// zone or one built by time.LoadLocationFromTZData) for the instants within 400 days of the abstract epoch.
type zonePeriod struct{ from, off int64 }

var (
	zoneMu    sync.Mutex
	zoneCache = map[*time.Location][]zonePeriod{}
)

const zoneSpanDays = 400

func zonePeriods(loc *time.Location) []zonePeriod {
	if loc == nil {
		inconclusive("nil location in symbolic time")
	}
	zoneMu.Lock()
	defer zoneMu.Unlock()
	if p, ok := zoneCache[loc]; ok {
		return p
	}
	lo, hi := symEpoch.AddDate(0, 0, -zoneSpanDays), symEpoch.AddDate(0, 0, zoneSpanDays)
	var ps []zonePeriod
	t := lo.In(loc)
	for {
		_, off := t.Zone()
		start, end := t.ZoneBounds()
		from := int64(math.MinInt64)
		if len(ps) > 0 && !start.IsZero() {
			from = start.Unix() - symEpoch.Unix()
		}
		if n := len(ps); n > 0 && ps[n-1].off == int64(off) {
			// same offset as the period before (only the abbreviation changed)
		} else {
			ps = append(ps, zonePeriod{from: from, off: int64(off)})
		}
		if end.IsZero() || !end.Before(hi) {
			break
		}
		t = end.In(loc)
	}
	zoneCache[loc] = ps
	return ps
}

func zoneSig(loc *time.Location) string {
	ps := zonePeriods(loc)
	if len(ps) == 1 {
		return fmt.Sprintf("fixed:%d", ps[0].off)
	}
	return fmt.Sprintf("tz:%s:%p", loc.String(), loc)
}

// zoneOffsetAt: the offset in force at the instant x (seconds since the abstract epoch, UTC), as a term.
func zoneOffsetAt(m *Machine, loc *time.Location, x *Term) *Term {
	ps := zonePeriods(loc)
	if len(ps) > 1 {
		m.zoneSpanCheck(x)
	}
	r := i64c(ps[len(ps)-1].off)
	for k := len(ps) - 2; k >= 0; k-- {
		r = mkIte(mkCmp("lt", x, i64c(ps[k+1].from)), i64c(ps[k].off), r)
	}
	return r
}

// zoneBoundsAt: start and end of the period containing x (open ends are +-2^62).
func zoneBoundsAt(loc *time.Location, x *Term) (*Term, *Term) {
	ps := zonePeriods(loc)
	const far = int64(1) << 62
	n := len(ps)
	st, en := i64c(ps[n-1].from), i64c(far)
	if n == 1 {
		return i64c(-far), en
	}
	for k := n - 2; k >= 0; k-- {
		c := mkCmp("lt", x, i64c(ps[k+1].from))
		from := ps[k].from
		if k == 0 {
			from = -far
		}
		st = mkIte(c, i64c(from), st)
		en = mkIte(c, i64c(ps[k+1].from), en)
	}
	return st, en
}

// zoneSpanCheck: the zone table covers +-400 days around the epoch; an instant that can lie outside ends the path.
func (m *Machine) zoneSpanCheck(x *Term) {
	if x.IsConst() {
		if x.K < -zoneSpanDays*86400+86400 || x.K > zoneSpanDays*86400-86400 {
			inconclusive("instant outside the span of the zone table")
		}
		return
	}
	if m.zoneChecked == nil {
		m.zoneChecked = map[*Term]bool{}
	}
	if m.zoneChecked[x] {
		return
	}
	lim := int64(zoneSpanDays-1) * 86400
	out := mkOr(mkCmp("lt", x, i64c(-lim)), mkCmp("lt", i64c(lim), x))
	if m.solver.Check(out) != Unsat {
		inconclusive("symbolic instant may lie outside the span of the zone table")
	}
	m.zoneChecked[x] = true
}

// dateToAbs is time.Date for the abstract calendar: local day number D and clock fields -> instant, with Go's rule
// for picking the offset (look the local time up as if it were UTC, correct once if that period does not contain it).
// The second result says that the local time asked for exists exactly once (always so in a zone with one offset), so
// that (D,H,M,S) is the calendar decomposition of the result.
func dateToAbs(m *Machine, loc *time.Location, D, H, M, S *Term) (*Term, bool) {
	local := mkArith("add", mkArith("mul", D, i64c(86400)), mkArith("add", mkArith("mul", H, i64c(3600)), mkArith("add", mkArith("mul", M, i64c(60)), S)))
	ps := zonePeriods(loc)
	if len(ps) == 1 {
		return mkArith("sub", local, i64c(ps[0].off)), true
	}
	m.zoneSpanCheck(local)
	// local times skipped or repeated by a shift at X from offset a to b: [X+min(a,b), X+max(a,b))
	amb := tFalse
	for k := 0; k+1 < len(ps); k++ {
		x, a, b := ps[k+1].from, ps[k].off, ps[k+1].off
		lo, hi := x+a, x+b
		if lo > hi {
			lo, hi = hi, lo
		}
		amb = mkOr(amb, mkAnd(mkCmp("le", i64c(lo), local), mkCmp("lt", local, i64c(hi))))
	}
	if m.solver.Check(amb) == Unsat {
		off := i64c(ps[len(ps)-1].off)
		for k := len(ps) - 2; k >= 0; k-- {
			off = mkIte(mkCmp("lt", local, i64c(ps[k+1].from+ps[k].off)), i64c(ps[k].off), off)
		}
		return mkArith("sub", local, off), true
	}
	off1 := zoneOffsetAt(m, loc, local)
	st, en := zoneBoundsAt(loc, local)
	utc := mkArith("sub", local, off1)
	outside := mkOr(mkCmp("lt", utc, st), mkCmp("le", en, utc))
	off := mkIte(outside, zoneOffsetAt(m, loc, utc), off1)
	return mkArith("sub", local, off), false
}

func fdiv(a *Term, k int64) *Term {
	if a.IsConst() {
		q := a.K / k
		if a.K%k != 0 && a.K < 0 {
			q--
		}
		return i64c(q)
	}
	return &Term{Op: "fdiv", Args: []*Term{a, i64c(k)}, W: 64, S: true}
}

func fmod(a *Term, k int64) *Term {
	if a.IsConst() {
		r := a.K % k
		if r < 0 {
			r += k
		}
		return i64c(r)
	}
	return &Term{Op: "fmod", Args: []*Term{a, i64c(k)}, W: 64, S: true}
}

func (st *SymTime) decompose(m *Machine) {
	sig := zoneSig(st.Loc)
	if st.D != nil && st.DecZone == sig {
		return
	}
	st.DecZone = sig
	local := mkArith("add", st.Abs, zoneOffsetAt(m, st.Loc, st.Abs))
	sod := fmod(local, 86400)
	st.D = fdiv(local, 86400)
	st.H = fdiv(sod, 3600)
	st.M = fdiv(fmod(sod, 3600), 60)
	st.S = fmod(sod, 60)
}

func toSymTime(m *Machine, v Val) *SymTime {
	switch t := v.(type) {
	case *SymTime:
		return t
	case TimeVal:
		if t.T.Nanosecond() != 0 {
			inconclusive("sub-second concrete time mixed with symbolic time")
		}
		return &SymTime{Abs: i64c(t.T.Unix() - symEpoch.Unix()), Loc: t.T.Location()}
	}
	panic("toSymTime")
}

// symDate models time.Date when some argument is symbolic.
func symDate(m *Machine, a []Val) (Val, bool) {
	sym := false
	for _, x := range a[:7] {
		if _, ok := x.(*Term); ok {
			sym = true
		}
	}
	if !sym {
		return nil, false
	}
	if m.ex.cfg.Mode != modeLIA {
		inconclusive("symbolic time.Date requires the integer encoding")
	}
	y, okY := a[0].(int64)
	mo, okM := a[1].(int64)
	if !okY || !okM || y != 2024 || mo != 1 {
		inconclusive("symbolic time.Date outside the abstract calendar (year/month must be 2024/1)")
	}
	if ns, ok := a[6].(int64); !ok || ns != 0 {
		inconclusive("symbolic time.Date with nanoseconds")
	}
	loc := locVal(a[7])
	if loc == nil {
		panic(&goPanic{msg: "time: missing Location in call to Date", pos: m.posStr(m.curFrame)})
	}
	tt := func(v Val) *Term { return toTermW(v, 64, true) }
	D := mkArith("sub", tt(a[2]), i64c(7))
	H, M, S := tt(a[3]), tt(a[4]), tt(a[5])
	abs, once := dateToAbs(m, loc, D, H, M, S)
	st := &SymTime{Abs: abs, Loc: loc}
	// the decomposition is only canonical when h,m,s are in range and that local time exists exactly once (in a zone
	// with shifts it may not exist or exist twice); keep it when that is known
	if once && inRange(m, H, 0, 23) && inRange(m, M, 0, 59) && inRange(m, S, 0, 59) {
		st.D, st.H, st.M, st.S, st.DecZone = D, H, M, S, zoneSig(loc)
	}
	return st, true
}

func inRange(m *Machine, t *Term, lo, hi int64) bool {
	if t.IsConst() {
		return lo <= t.K && t.K <= hi
	}
	out := mkOr(mkCmp("lt", t, i64c(lo)), mkCmp("lt", i64c(hi), t))
	return m.solver.Check(out) == Unsat
}

func symTimeMethod(m *Machine, fr *frame, name string, st *SymTime, a []Val) Val {
	switch name {
	case "UTC":
		return symIn(m, st, time.UTC)
	case "Local":
		return symIn(m, st, time.UTC)
	case "In":
		l := locVal(a[0])
		if l == nil {
			panic(&goPanic{msg: "time: missing Location in call to Time.In", pos: m.posStr(fr)})
		}
		return symIn(m, st, l)
	case "Location":
		return st.Loc
	case "IsZero":
		return false
	case "Clock":
		st.decompose(m)
		return Tuple{fromTerm(st.H), fromTerm(st.M), fromTerm(st.S)}
	case "Hour":
		st.decompose(m)
		return fromTerm(st.H)
	case "Minute":
		st.decompose(m)
		return fromTerm(st.M)
	case "Second":
		st.decompose(m)
		return fromTerm(st.S)
	case "Nanosecond":
		return int64(0)
	case "Weekday":
		st.decompose(m)
		return fromTerm(fmod(st.D, 7))
	case "Year":
		return int64(2024)
	case "Month":
		return int64(1)
	case "Day":
		st.decompose(m)
		return fromTerm(mkArith("add", st.D, i64c(7)))
	case "Date":
		st.decompose(m)
		return Tuple{int64(2024), int64(1), fromTerm(mkArith("add", st.D, i64c(7)))}
	case "AddDate":
		if y, ok := a[0].(int64); !ok || y != 0 {
			inconclusive("AddDate years on symbolic time")
		}
		if mo, ok := a[1].(int64); !ok || mo != 0 {
			inconclusive("AddDate months on symbolic time")
		}
		n := toTermW(a[2], 64, true)
		if len(zonePeriods(st.Loc)) > 1 {
			// Go: AddDate = Date(year, month, day+n, hour, min, sec) in the value's location
			st.decompose(m)
			D1 := mkArith("add", st.D, n)
			abs, once := dateToAbs(m, st.Loc, D1, st.H, st.M, st.S)
			r := &SymTime{Abs: abs, Loc: st.Loc}
			if once {
				r.D, r.H, r.M, r.S, r.DecZone = D1, st.H, st.M, st.S, st.DecZone
			}
			return r
		}
		r := &SymTime{Abs: mkArith("add", st.Abs, mkArith("mul", n, i64c(86400))), Loc: st.Loc}
		if st.D != nil && st.DecZone == zoneSig(st.Loc) {
			r.D, r.H, r.M, r.S, r.DecZone = mkArith("add", st.D, n), st.H, st.M, st.S, st.DecZone
		}
		return r
	case "Add":
		if dt, ok := a[0].(*Term); ok {
			if m.solver.Check(mkNot(mkCmp("eq", fmod(dt, 1e9), i64c(0)))) != Unsat {
				inconclusive("Time.Add of a possibly sub-second symbolic duration on symbolic time")
			}
			return &SymTime{Abs: mkArith("add", st.Abs, fdiv(dt, 1e9)), Loc: st.Loc}
		}
		d, ok := a[0].(int64)
		if !ok || d%1e9 != 0 {
			inconclusive("Time.Add of sub-second duration on symbolic time")
		}
		return &SymTime{Abs: mkArith("add", st.Abs, i64c(d/1e9)), Loc: st.Loc}
	case "Sub":
		o := toSymTime(m, a[0])
		return fromTerm(mkArith("mul", mkArith("sub", st.Abs, o.Abs), i64c(1e9)))
	case "Before":
		return fromTerm(mkCmp("lt", st.Abs, toSymTime(m, a[0]).Abs))
	case "After":
		return fromTerm(mkCmp("lt", toSymTime(m, a[0]).Abs, st.Abs))
	case "Equal":
		return fromTerm(mkCmp("eq", st.Abs, toSymTime(m, a[0]).Abs))
	}
	inconclusive("method time.Time.%s not modelled for symbolic time", name)
	return nil
}

func symIn(m *Machine, st *SymTime, loc *time.Location) Val {
	r := *st // the cached decomposition travels with the value and is used again in zones of the same offset
	r.Loc = loc
	return &r
}
