package main

import (
	"time"
)

// Abstract calendar for symbolic schedules (integer encoding only).
// An instant is Abs = seconds since 2024-01-07T00:00:00Z (a Sunday); it carries the fixed-offset zone it is
// expressed in. Year()/Month()/Day() return (2024, 1, 7+D) where D is the local day number: the code only
// feeds them back into time.Date, which is modelled as the inverse (Go normalises day-of-month overflow the same way).

var symEpoch = time.Date(2024, time.January, 7, 0, 0, 0, 0, time.UTC)

type SymTime struct {
	Abs        *Term
	Loc        *time.Location
	D, H, M, S *Term // calendar decomposition valid in zones whose offset is DecOff (nil if not available)
	DecOff     int64
}

func i64c(v int64) *Term { return mkConst(v, 64, true) }

func zoneOffset(m *Machine, loc *time.Location) int64 {
	if loc == nil {
		inconclusive("nil location in symbolic time")
	}
	_, o1 := time.Date(2024, 1, 7, 0, 0, 0, 0, loc).Zone()
	_, o2 := time.Date(2024, 7, 7, 0, 0, 0, 0, loc).Zone()
	if o1 != o2 {
		inconclusive("zone with daylight-saving shifts in symbolic time")
	}
	return int64(o1)
}

func fdiv(a *Term, k int64) *Term {
	if a.IsConst() {
		q := a.K / k
		if a.K%k != 0 && a.K < 0 {
			q--
		}
		return i64c(q)
	}
	return &Term{Op: "fdiv", Args: []*Term{a, i64c(k)}, W: 64, S: true}
}

func fmod(a *Term, k int64) *Term {
	if a.IsConst() {
		r := a.K % k
		if r < 0 {
			r += k
		}
		return i64c(r)
	}
	return &Term{Op: "fmod", Args: []*Term{a, i64c(k)}, W: 64, S: true}
}

func (st *SymTime) decompose(m *Machine) {
	if st.D != nil && st.DecOff == zoneOffset(m, st.Loc) {
		return
	}
	st.DecOff = zoneOffset(m, st.Loc)
	local := mkArith("add", st.Abs, i64c(zoneOffset(m, st.Loc)))
	sod := fmod(local, 86400)
	st.D = fdiv(local, 86400)
	st.H = fdiv(sod, 3600)
	st.M = fdiv(fmod(sod, 3600), 60)
	st.S = fmod(sod, 60)
}

func toSymTime(m *Machine, v Val) *SymTime {
	switch t := v.(type) {
	case *SymTime:
		return t
	case TimeVal:
		if t.T.Nanosecond() != 0 {
			inconclusive("sub-second concrete time mixed with symbolic time")
		}
		return &SymTime{Abs: i64c(t.T.Unix() - symEpoch.Unix()), Loc: t.T.Location()}
	}
	panic("toSymTime")
}

// symDate models time.Date when some argument is symbolic.
func symDate(m *Machine, a []Val) (Val, bool) {
	sym := false
	for _, x := range a[:7] {
		if _, ok := x.(*Term); ok {
			sym = true
		}
	}
	if !sym {
		return nil, false
	}
	if m.ex.cfg.Mode != modeLIA {
		inconclusive("symbolic time.Date requires the integer encoding")
	}
	y, okY := a[0].(int64)
	mo, okM := a[1].(int64)
	if !okY || !okM || y != 2024 || mo != 1 {
		inconclusive("symbolic time.Date outside the abstract calendar (year/month must be 2024/1)")
	}
	if ns, ok := a[6].(int64); !ok || ns != 0 {
		inconclusive("symbolic time.Date with nanoseconds")
	}
	loc := locVal(a[7])
	if loc == nil {
		panic(&goPanic{msg: "time: missing Location in call to Date", pos: m.posStr(m.curFrame)})
	}
	tt := func(v Val) *Term { return toTermW(v, 64, true) }
	D := mkArith("sub", tt(a[2]), i64c(7))
	H, M, S := tt(a[3]), tt(a[4]), tt(a[5])
	abs := mkArith("add", mkArith("mul", D, i64c(86400)), mkArith("add", mkArith("mul", H, i64c(3600)), mkArith("add", mkArith("mul", M, i64c(60)), S)))
	abs = mkArith("sub", abs, i64c(zoneOffset(m, loc)))
	st := &SymTime{Abs: abs, Loc: loc}
	// the decomposition is only canonical when h,m,s are in range; keep it when they are known to be
	if inRange(m, H, 0, 23) && inRange(m, M, 0, 59) && inRange(m, S, 0, 59) {
		st.D, st.H, st.M, st.S, st.DecOff = D, H, M, S, zoneOffset(m, loc)
	}
	return st, true
}

func inRange(m *Machine, t *Term, lo, hi int64) bool {
	if t.IsConst() {
		return lo <= t.K && t.K <= hi
	}
	out := mkOr(mkCmp("lt", t, i64c(lo)), mkCmp("lt", i64c(hi), t))
	return m.solver.Check(out) == Unsat
}

func symTimeMethod(m *Machine, fr *frame, name string, st *SymTime, a []Val) Val {
	switch name {
	case "UTC":
		return symIn(m, st, time.UTC)
	case "Local":
		return symIn(m, st, time.UTC)
	case "In":
		l := locVal(a[0])
		if l == nil {
			panic(&goPanic{msg: "time: missing Location in call to Time.In", pos: m.posStr(fr)})
		}
		return symIn(m, st, l)
	case "Location":
		return st.Loc
	case "IsZero":
		return false
	case "Clock":
		st.decompose(m)
		return Tuple{fromTerm(st.H), fromTerm(st.M), fromTerm(st.S)}
	case "Hour":
		st.decompose(m)
		return fromTerm(st.H)
	case "Minute":
		st.decompose(m)
		return fromTerm(st.M)
	case "Second":
		st.decompose(m)
		return fromTerm(st.S)
	case "Nanosecond":
		return int64(0)
	case "Weekday":
		st.decompose(m)
		return fromTerm(fmod(st.D, 7))
	case "Year":
		return int64(2024)
	case "Month":
		return int64(1)
	case "Day":
		st.decompose(m)
		return fromTerm(mkArith("add", st.D, i64c(7)))
	case "Date":
		st.decompose(m)
		return Tuple{int64(2024), int64(1), fromTerm(mkArith("add", st.D, i64c(7)))}
	case "AddDate":
		if y, ok := a[0].(int64); !ok || y != 0 {
			inconclusive("AddDate years on symbolic time")
		}
		if mo, ok := a[1].(int64); !ok || mo != 0 {
			inconclusive("AddDate months on symbolic time")
		}
		n := toTermW(a[2], 64, true)
		r := &SymTime{Abs: mkArith("add", st.Abs, mkArith("mul", n, i64c(86400))), Loc: st.Loc}
		if st.D != nil {
			r.D, r.H, r.M, r.S, r.DecOff = mkArith("add", st.D, n), st.H, st.M, st.S, st.DecOff
		}
		return r
	case "Add":
		d, ok := a[0].(int64)
		if !ok || d%1e9 != 0 {
			inconclusive("Time.Add of symbolic or sub-second duration on symbolic time")
		}
		return &SymTime{Abs: mkArith("add", st.Abs, i64c(d/1e9)), Loc: st.Loc}
	case "Sub":
		o := toSymTime(m, a[0])
		return fromTerm(mkArith("mul", mkArith("sub", st.Abs, o.Abs), i64c(1e9)))
	case "Before":
		return fromTerm(mkCmp("lt", st.Abs, toSymTime(m, a[0]).Abs))
	case "After":
		return fromTerm(mkCmp("lt", toSymTime(m, a[0]).Abs, st.Abs))
	case "Equal":
		return fromTerm(mkCmp("eq", st.Abs, toSymTime(m, a[0]).Abs))
	}
	inconclusive("method time.Time.%s not modelled for symbolic time", name)
	return nil
}

func symIn(m *Machine, st *SymTime, loc *time.Location) Val {
	r := *st // the cached decomposition travels with the value and is used again in zones of the same offset
	r.Loc = loc
	return &r
}
