package main

// Cheap facts harvested from the path condition: per-variable interval and excluded constants.
// They answer many feasibility questions of the byte scanners without a solver query. Facts are
// derived only from terms asserted into the path condition, so using them is sound; the solver
// remains the fallback and the only judge of assertions.

type fact struct {
	lo, hi int64
	excl   map[int64]bool
}

type facts map[string]*fact

func (fs facts) get(v *Term) *fact {
	f := fs[v.Name]
	if f == nil {
		f = &fact{}
		switch {
		case v.W == 0:
			f.lo, f.hi = 0, 1
		case v.S:
			if v.W >= 64 {
				f.lo, f.hi = -1<<63, 1<<63-1
			} else {
				f.lo, f.hi = -(1 << uint(v.W-1)), 1<<uint(v.W-1)-1
			}
		default:
			if v.W >= 63 {
				f.lo, f.hi = 0, 1<<63-1 // conservative for uint64: facts only used when var < 2^63
				if v.W == 64 {
					return nil
				}
			} else {
				f.lo, f.hi = 0, 1<<uint(v.W)-1
			}
		}
		fs[v.Name] = f
	}
	return f
}

// baseVar strips value-preserving widenings: conv(var) where the target range contains the source range.
func baseVar(t *Term) *Term {
	for t.Op == "conv" {
		x := t.Args[0]
		if x.W == 0 || !((x.S == t.S && t.W >= x.W) || (!x.S && t.S && t.W > x.W)) {
			return nil
		}
		t = x
	}
	if t.Op == "var" && t.W > 0 {
		return t
	}
	return nil
}

func (fs facts) learn(t *Term) {
	switch t.Op {
	case "band":
		fs.learn(t.Args[0])
		fs.learn(t.Args[1])
	case "bnot":
		fs.learnNeg(t.Args[0])
	case "eq", "le", "lt":
		fs.learnCmp(t.Op, t.Args[0], t.Args[1], false)
	}
}

func (fs facts) learnNeg(t *Term) {
	switch t.Op {
	case "bor":
		fs.learnNeg(t.Args[0])
		fs.learnNeg(t.Args[1])
	case "bnot":
		fs.learn(t.Args[0])
	case "eq", "le", "lt":
		fs.learnCmp(t.Op, t.Args[0], t.Args[1], true)
	}
}

func (fs facts) learnCmp(op string, a, b *Term, neg bool) {
	va, vb := baseVar(a), baseVar(b)
	switch {
	case va != nil && b.IsConst():
		f := fs.get(va)
		if f == nil {
			return
		}
		c := b.K
		switch {
		case op == "eq" && !neg:
			if c > f.lo {
				f.lo = c
			}
			if c < f.hi {
				f.hi = c
			}
		case op == "eq" && neg:
			if f.excl == nil {
				f.excl = map[int64]bool{}
			}
			f.excl[c] = true
			for f.lo <= f.hi && f.excl[f.lo] {
				f.lo++
			}
			for f.hi >= f.lo && f.excl[f.hi] {
				f.hi--
			}
		case (op == "le" && !neg) || (op == "lt" && !neg): // a <= c / a < c
			if op == "lt" {
				c--
			}
			if c < f.hi {
				f.hi = c
			}
		default: // !(a <= c) => a >= c+1 ; !(a < c) => a >= c
			if op == "le" {
				c++
			}
			if c > f.lo {
				f.lo = c
			}
		}
	case vb != nil && a.IsConst():
		f := fs.get(vb)
		if f == nil {
			return
		}
		c := a.K
		switch {
		case op == "eq":
			fs.learnCmp(op, b, a, neg)
		case !neg: // c <= b / c < b
			if op == "lt" {
				c++
			}
			if c > f.lo {
				f.lo = c
			}
		default: // !(c <= b) => b <= c-1 ; !(c < b) => b <= c
			if op == "le" {
				c--
			}
			if c < f.hi {
				f.hi = c
			}
		}
	}
}

// qeval: three-valued evaluation; returns (known, value).
func (fs facts) qeval(t *Term) (bool, bool) {
	switch t.Op {
	case "const":
		return true, t.K != 0
	case "bnot":
		k, v := fs.qeval(t.Args[0])
		return k, !v
	case "band":
		k1, v1 := fs.qeval(t.Args[0])
		if k1 && !v1 {
			return true, false
		}
		k2, v2 := fs.qeval(t.Args[1])
		if k2 && !v2 {
			return true, false
		}
		return k1 && k2, true
	case "bor":
		k1, v1 := fs.qeval(t.Args[0])
		if k1 && v1 {
			return true, true
		}
		k2, v2 := fs.qeval(t.Args[1])
		if k2 && v2 {
			return true, true
		}
		return k1 && k2, false
	case "eq", "le", "lt":
		a, b := t.Args[0], t.Args[1]
		alo, ahi, aex, okA := fs.rangeOf(a)
		blo, bhi, bex, okB := fs.rangeOf(b)
		if !okA || !okB {
			return false, false
		}
		switch t.Op {
		case "eq":
			if ahi < blo || bhi < alo {
				return true, false
			}
			if alo == ahi && blo == bhi && alo == blo {
				return true, true
			}
			if blo == bhi && aex != nil && aex[blo] {
				return true, false
			}
			if alo == ahi && bex != nil && bex[alo] {
				return true, false
			}
		case "le":
			if ahi <= blo {
				return true, true
			}
			if alo > bhi {
				return true, false
			}
		case "lt":
			if ahi < blo {
				return true, true
			}
			if alo >= bhi {
				return true, false
			}
		}
	}
	return false, false
}

func (fs facts) rangeOf(t *Term) (lo, hi int64, excl map[int64]bool, ok bool) {
	if t.IsConst() {
		if t.W == 64 && !t.S && t.K < 0 {
			return 0, 0, nil, false
		}
		return t.K, t.K, nil, true
	}
	if v := baseVar(t); v != nil {
		f := fs.get(v)
		if f == nil {
			return 0, 0, nil, false
		}
		return f.lo, f.hi, f.excl, true
	}
	// interval arithmetic over small ranges (no wrap possible inside +-2^40 for widths >= 64; narrower widths re-checked)
	const big = int64(1) << 40
	fits := func(lo, hi int64) bool {
		if lo < -big || hi > big {
			return false
		}
		if !t.S && (lo < 0 || (t.W < 63 && hi > 1<<uint(t.W)-1)) {
			return false
		}
		if t.S && t.W < 64 && (lo < -(1<<uint(t.W-1)) || hi > 1<<uint(t.W-1)-1) {
			return false
		}
		return true
	}
	switch t.Op {
	case "add", "sub":
		alo, ahi, _, okA := fs.rangeOf(t.Args[0])
		blo, bhi, _, okB := fs.rangeOf(t.Args[1])
		if okA && okB && alo > -big && ahi < big && blo > -big && bhi < big {
			if t.Op == "add" {
				lo, hi = alo+blo, ahi+bhi
			} else {
				lo, hi = alo-bhi, ahi-blo
			}
			if fits(lo, hi) {
				return lo, hi, nil, true
			}
		}
	case "mul":
		alo, ahi, _, okA := fs.rangeOf(t.Args[0])
		blo, bhi, _, okB := fs.rangeOf(t.Args[1])
		if okA && okB && alo > -(1<<20) && ahi < 1<<20 && blo > -(1<<20) && bhi < 1<<20 {
			c := []int64{alo * blo, alo * bhi, ahi * blo, ahi * bhi}
			lo, hi = c[0], c[0]
			for _, x := range c[1:] {
				if x < lo {
					lo = x
				}
				if x > hi {
					hi = x
				}
			}
			if fits(lo, hi) {
				return lo, hi, nil, true
			}
		}
	case "conv":
		x := t.Args[0]
		if x.W > 0 && ((x.S == t.S && t.W >= x.W) || (!x.S && t.S && t.W > x.W)) {
			lo, hi, _, ok := fs.rangeOf(x)
			if ok {
				return lo, hi, nil, true
			}
		}
	case "ite":
		alo, ahi, _, okA := fs.rangeOf(t.Args[1])
		blo, bhi, _, okB := fs.rangeOf(t.Args[2])
		if okA && okB {
			if blo < alo {
				alo = blo
			}
			if bhi > ahi {
				ahi = bhi
			}
			return alo, ahi, nil, true
		}
	}
	return 0, 0, nil, false
}
