package main

import (
	"fmt"
	"go/token"
	"go/types"
	"math"
	"unicode/utf8"

	"golang.org/x/tools/go/ssa"
)

func (m *Machine) unop(fr *frame, ins *ssa.UnOp, x Val) Val {
	switch ins.Op {
	case token.MUL: // load
		p := x.(*Val)
		if p == nil {
			m.rtPanic(fr, "nil pointer dereference")
		}
		return copyVal(*p)
	case token.ARROW:
		return m.chanRecv(fr, x, ins.X.Type().Underlying().(*types.Chan).Elem(), ins.CommaOk)
	case token.NOT:
		switch x := x.(type) {
		case bool:
			return !x
		case *Term:
			return fromTerm(mkNot(x))
		}
	case token.SUB:
		switch x := x.(type) {
		case int64:
			w, s, _ := intKind(ins.X.Type())
			return norm(-x, w, s)
		case float64:
			return -x
		case *SymFloat:
			return -m.sfConc(x)
		case *Term:
			return m.arith(fr, "sub", mkConst(0, x.W, x.S), x)
		}
	case token.XOR:
		switch x := x.(type) {
		case int64:
			w, s, _ := intKind(ins.X.Type())
			return norm(^x, w, s)
		case *Term:
			return fromTerm(mkBvNot(x))
		}
	}
	panic(fmt.Sprintf("unop %v on %T", ins.Op, x))
}

// arith builds a symbolic arithmetic result, recording LIA overflow obligations.
func (m *Machine) arith(fr *frame, op string, a, b *Term) Val {
	r := mkArith(op, a, b)
	if m.ex.cfg.Mode == modeLIA && r.W >= 64 && !r.IsConst() {
		switch op {
		case "add", "sub", "mul":
			if len(m.ovf) < 4096 {
				m.ovf = append(m.ovf, r)
			}
		}
	}
	return fromTerm(r)
}

var arithOps = map[token.Token]string{
	token.ADD: "add", token.SUB: "sub", token.MUL: "mul", token.QUO: "div", token.REM: "rem",
	token.AND: "and", token.OR: "or", token.XOR: "xor", token.AND_NOT: "andnot", token.SHL: "shl", token.SHR: "shr",
}

func (m *Machine) binop(fr *frame, op token.Token, t types.Type, x, y Val) Val {
	if _, ok := x.(*SymFloat); ok {
		return m.floatBinop(fr, op, x, y)
	}
	if _, ok := y.(*SymFloat); ok {
		return m.floatBinop(fr, op, x, y)
	}
	switch op {
	case token.EQL:
		return equals(t, x, y)
	case token.NEQ:
		switch e := equals(t, x, y).(type) {
		case bool:
			return !e
		case *Term:
			return fromTerm(mkNot(e))
		}
	}
	_, xs := x.(*Term)
	_, ys := y.(*Term)
	if xs || ys {
		w, s, ok := intKind(t)
		if !ok {
			if isBoolT(t) {
				panic("bool binop other than ==/!=")
			}
			panic(&pathEnd{kind: "inconclusive", msg: fmt.Sprintf("symbolic operand in %v on %v at %s", op, t, m.posStr(fr))})
		}
		tx := toTermW(x, w, s)
		var ty *Term
		if op == token.SHL || op == token.SHR {
			// shift count has its own (unsigned or signed) type; convert to x's
			switch yv := y.(type) {
			case int64:
				if yv < 0 {
					m.rtPanic(fr, "negative shift amount")
				}
				if yv >= int64(w) {
					yv = int64(w)
				}
				ty = mkConst(yv, w, s)
			case *Term:
				ty = mkConv(yv, w, s)
			}
		} else {
			ty = toTermW(y, w, s)
		}
		switch op {
		case token.QUO, token.REM:
			if !m.decide(mkNot(mkCmp("eq", ty, mkConst(0, w, s)))) {
				m.rtPanic(fr, "integer divide by zero")
			}
			return m.arith(fr, arithOps[op], tx, ty)
		case token.ADD, token.SUB, token.MUL, token.AND, token.OR, token.XOR, token.AND_NOT, token.SHL, token.SHR:
			return m.arith(fr, arithOps[op], tx, ty)
		case token.LSS:
			return fromTerm(mkCmp("lt", tx, ty))
		case token.LEQ:
			return fromTerm(mkCmp("le", tx, ty))
		case token.GTR:
			return fromTerm(mkCmp("lt", ty, tx))
		case token.GEQ:
			return fromTerm(mkCmp("le", ty, tx))
		}
		panic(fmt.Sprintf("symbolic binop %v", op))
	}
	switch x := x.(type) {
	case int64:
		w, s, ok := intKind(t)
		if !ok {
			panic(fmt.Sprintf("int64 operand of type %v", t))
		}
		y := y.(int64)
		switch op {
		case token.QUO, token.REM:
			if y == 0 {
				m.rtPanic(fr, "integer divide by zero")
			}
			v, _ := foldArith(arithOps[op], x, y, w, s)
			return v
		case token.SHL, token.SHR:
			if y < 0 {
				// y's own type may be unsigned 64: treat huge as >= width
				y = 64
			}
			v, _ := foldArith(arithOps[op], x, y, w, s)
			return v
		case token.ADD, token.SUB, token.MUL, token.AND, token.OR, token.XOR, token.AND_NOT:
			v, _ := foldArith(arithOps[op], x, y, w, s)
			return v
		}
		var c int
		if s {
			switch {
			case x < y:
				c = -1
			case x > y:
				c = 1
			}
		} else {
			c = ucmp(x, y)
		}
		switch op {
		case token.LSS:
			return c < 0
		case token.LEQ:
			return c <= 0
		case token.GTR:
			return c > 0
		case token.GEQ:
			return c >= 0
		}
	case float64:
		y := y.(float64)
		f32 := false
		if b, ok := t.Underlying().(*types.Basic); ok && b.Kind() == types.Float32 {
			f32 = true
		}
		rf := func(v float64) Val {
			if f32 {
				return float64(float32(v))
			}
			return v
		}
		switch op {
		case token.ADD:
			return rf(x + y)
		case token.SUB:
			return rf(x - y)
		case token.MUL:
			return rf(x * y)
		case token.QUO:
			return rf(x / y)
		case token.LSS:
			return x < y
		case token.LEQ:
			return x <= y
		case token.GTR:
			return x > y
		case token.GEQ:
			return x >= y
		}
	case string, *SymStr:
		switch op {
		case token.ADD:
			if xs, ok := x.(string); ok {
				if ys, ok := y.(string); ok {
					return xs + ys
				}
			}
			return mkStr(append(append([]Val{}, strBytes(x)...), strBytes(y)...))
		case token.LSS:
			return cmpStr(x, y, func(a, b string) bool { return a < b }, func() Val { return strLess(x, y) })
		case token.GTR:
			return cmpStr(x, y, func(a, b string) bool { return a > b }, func() Val { return strLess(y, x) })
		case token.LEQ:
			return cmpStr(x, y, func(a, b string) bool { return a <= b }, func() Val { return notVal(strLess(y, x)) })
		case token.GEQ:
			return cmpStr(x, y, func(a, b string) bool { return a >= b }, func() Val { return notVal(strLess(x, y)) })
		}
	case bool:
		// && and || are lowered to control flow; only ==/!= reach here
	}
	panic(fmt.Sprintf("binop %v on %T,%T (type %v) at %s", op, x, y, t, m.posStr(fr)))
}

func notVal(v Val) Val {
	switch v := v.(type) {
	case bool:
		return !v
	case *Term:
		return fromTerm(mkNot(v))
	}
	panic("notVal")
}

func cmpStr(x, y Val, conc func(a, b string) bool, sym func() Val) Val {
	if a, ok := x.(string); ok {
		if b, ok := y.(string); ok {
			return conc(a, b)
		}
	}
	return sym()
}

func toTermW(v Val, w int, s bool) *Term {
	switch v := v.(type) {
	case *Term:
		if v.W != w || v.S != s {
			return mkConv(v, w, s)
		}
		return v
	case int64:
		return mkConst(v, w, s)
	}
	panic(fmt.Sprintf("toTermW: %T", v))
}

func (m *Machine) conv(fr *frame, dst, src types.Type, x Val) Val {
	ud, us := dst.Underlying(), src.Underlying()
	// pointer <-> unsafe.Pointer, named conversions of same underlying
	switch ud.(type) {
	case *types.Pointer, *types.Struct, *types.Map, *types.Chan, *types.Signature, *types.Interface, *types.Array:
		return x
	}
	if dw, ds, ok := intKind(ud); ok {
		switch x := x.(type) {
		case int64:
			return norm(x, dw, ds)
		case *Term:
			if x.W == 0 {
				panic("conv bool→int")
			}
			return fromTerm(mkConv(x, dw, ds))
		case float64:
			if ds {
				return norm(int64(x), dw, ds)
			}
			return norm(int64(uint64(x)), dw, ds)
		case *SymFloat:
			if m.sfExact(x) {
				return fromTerm(mkConv(x.I, dw, ds))
			}
			f := m.sfConc(x)
			if ds {
				return norm(int64(f), dw, ds)
			}
			return norm(int64(uint64(f)), dw, ds)
		}
	}
	if isFloat(ud) {
		f32 := ud.(*types.Basic).Kind() == types.Float32
		var f float64
		switch x := x.(type) {
		case float64:
			f = x
		case int64:
			if _, s, _ := intKind(us); s {
				f = float64(x)
			} else {
				f = float64(uint64(x))
			}
		case *SymFloat:
			if !f32 {
				return x
			}
			f = m.sfConc(x)
		case *Term:
			if _, s, _ := intKind(us); s && !f32 {
				// no floating-point theory: the float is carried as "the conversion of this integer" (symfloat.go)
				return &SymFloat{I: mkConv(x, 64, true)}
			}
			c := m.concretize(x)
			if _, s, _ := intKind(us); s {
				f = float64(c)
			} else {
				f = float64(uint64(c))
			}
		default:
			panic(fmt.Sprintf("conv to float from %T", x))
		}
		if f32 {
			return float64(float32(f))
		}
		return f
	}
	if isString(ud) {
		switch x := x.(type) {
		case string, *SymStr:
			return x
		case Slice:
			// []byte or []rune → string
			et := us.(*types.Slice).Elem().Underlying().(*types.Basic)
			if et.Kind() == types.Uint8 {
				return mkStr(append([]Val{}, x...))
			}
			rs := make([]rune, len(x))
			for i, r := range x {
				c, ok := r.(int64)
				if !ok {
					panic(&pathEnd{kind: "inconclusive", msg: "symbolic rune in string conversion"})
				}
				rs[i] = rune(c)
			}
			return string(rs)
		case int64:
			return string(rune(x))
		case *Term:
			panic(&pathEnd{kind: "inconclusive", msg: "symbolic rune to string"})
		}
	}
	if sl, ok := ud.(*types.Slice); ok {
		switch x := x.(type) {
		case Slice:
			return x
		case string, *SymStr:
			et := sl.Elem().Underlying().(*types.Basic)
			if et.Kind() == types.Uint8 {
				return Slice(append([]Val{}, strBytes(x)...))
			}
			s, ok := isConcreteStr(x)
			if !ok {
				panic(&pathEnd{kind: "inconclusive", msg: "symbolic string to []rune"})
			}
			var rs Slice
			for _, r := range s {
				rs = append(rs, int64(r))
			}
			return rs
		}
	}
	if b, ok := ud.(*types.Basic); ok && b.Kind() == types.UnsafePointer {
		return x
	}
	if isBoolT(ud) {
		return x
	}
	panic(fmt.Sprintf("conv: unsupported %v -> %v (%T)", src, dst, x))
}


// appendVals is Go's append on the interpreter's slices: in place when the capacity allows (the backing array is shared
// with every other slice of it, as natively), otherwise into a new array of doubled capacity.
func appendVals(s Slice, add []Val) Slice {
	if len(add) == 0 {
		return s
	}
	n := len(s)
	if n+len(add) <= cap(s) {
		s = s[:n+len(add)]
	} else {
		nc := 2 * cap(s)
		if nc < n+len(add) {
			nc = n + len(add)
		}
		ns := make(Slice, n+len(add), nc)
		copy(ns, s)
		// spare capacity holds zero values of the element type
		if nc > n+len(add) {
			var z Val
			if len(add) > 0 {
				z = zeroLike(add[0])
			}
			full := ns[:nc]
			for i := n + len(add); i < nc; i++ {
				full[i] = z
			}
		}
		s = ns
	}
	for i, v := range add {
		s[n+i] = copyVal(v)
	}
	return s
}

// ------------------------------------------------------------------ builtins

func (m *Machine) callBuiltin(fr *frame, pos token.Pos, fn *ssa.Builtin, args []Val) Val {
	switch fn.Name() {
	case "append":
		var s Slice
		if args[0] != nil {
			s = args[0].(Slice)
		}
		var add []Val
		switch a := args[1].(type) {
		case Slice:
			add = a
		case string, *SymStr:
			add = strBytes(a)
		case nil:
		default:
			panic(fmt.Sprintf("append: %T", a))
		}
		return appendVals(s, add)
	case "copy":
		dst := args[0].(Slice)
		var src []Val
		switch a := args[1].(type) {
		case Slice:
			src = a
		case string, *SymStr:
			src = strBytes(a)
		}
		n := len(dst)
		if len(src) < n {
			n = len(src)
		}
		tmp := make([]Val, n)
		for i := 0; i < n; i++ {
			tmp[i] = copyVal(src[i])
		}
		copy(dst, tmp)
		return int64(n)
	case "len":
		switch x := args[0].(type) {
		case string, *SymStr:
			return int64(strLen(x))
		case Slice:
			return int64(len(x))
		case Array:
			return int64(len(x))
		case *Val:
			return int64(len((*x).(Array)))
		case *Map:
			if x == nil {
				return int64(0)
			}
			return int64(len(x.entries))
		case *Chan:
			if x == nil {
				return int64(0)
			}
			return int64(len(x.buf))
		}
	case "cap":
		switch x := args[0].(type) {
		case Slice:
			return int64(cap(x))
		case Array:
			return int64(len(x))
		case *Val:
			return int64(len((*x).(Array)))
		case *Chan:
			if x == nil {
				return int64(0)
			}
			return int64(x.cap)
		}
	case "delete":
		m.mapDelete(args[0].(*Map), args[1])
		return nil
	case "clear":
		switch x := args[0].(type) {
		case *Map:
			if x != nil {
				x.entries = nil
			}
		case Slice:
			for i := range x {
				x[i] = zeroLike(x[i])
			}
		}
		return nil
	case "close":
		c := args[0].(*Chan)
		if c == nil {
			m.rtPanic(fr, "close of nil channel")
		}
		if c.closed {
			m.rtPanic(fr, "close of closed channel")
		}
		c.closed = true
		return nil
	case "recover":
		// recover is effective only when called directly by a deferred function
		caller := fr.caller
		if caller != nil && caller.panicking {
			caller.panicking = false
			gp := caller.panicV
			caller.panicV = nil
			if gp.runtime {
				return Iface{T: types.Typ[types.String], V: "runtime error: " + gp.msg}
			}
			if gp.val == nil {
				return Iface{T: types.Typ[types.String], V: gp.msg}
			}
			return gp.val
		}
		return Iface{}
	case "print", "println":
		return nil
	case "min", "max":
		best := args[0]
		for _, a := range args[1:] {
			ai, ok1 := a.(int64)
			bi, ok2 := best.(int64)
			if !ok1 || !ok2 {
				panic(&pathEnd{kind: "inconclusive", msg: "min/max on non-concrete ints"})
			}
			if (fn.Name() == "min" && ai < bi) || (fn.Name() == "max" && ai > bi) {
				best = a
			}
		}
		return best
	case "ssa:wrapnilchk":
		if p, ok := args[0].(*Val); ok && p == nil {
			m.rtPanic(fr, "value method called using nil pointer")
		}
		return args[0]
	}
	panic(fmt.Sprintf("builtin %s on %T", fn.Name(), args[0]))
}

func zeroLike(v Val) Val {
	switch v := v.(type) {
	case bool:
		return false
	case int64, *Term:
		if t, ok := v.(*Term); ok && t.W == 0 {
			return false
		}
		return int64(0)
	case float64:
		return float64(0)
	case string, *SymStr:
		return ""
	case *Val:
		return (*Val)(nil)
	case Struct:
		c := make(Struct, len(v))
		for i := range v {
			c[i] = zeroLike(v[i])
		}
		return c
	case Array:
		c := make(Array, len(v))
		for i := range v {
			c[i] = zeroLike(v[i])
		}
		return c
	case Slice:
		return Slice(nil)
	case Iface:
		return Iface{}
	case *Map:
		return (*Map)(nil)
	case *Chan:
		return (*Chan)(nil)
	case *Closure, *ssa.Function:
		return (*Closure)(nil)
	case TimeVal:
		return TimeVal{}
	}
	return nil
}

var _ = math.MaxInt64
var _ = utf8.RuneError
