package main

import (
	"fmt"
	"go/types"
	"strings"
	"time"

	"golang.org/x/tools/go/ssa"
)

// Val is an interpreted value:
//   bool, int64 (every integer kind, normalised to its type), float64, string
//   *Term        symbolic bool or integer
//   *SymStr      string with symbolic bytes (concrete length)
//   *Val         pointer (nil pointer = (*Val)(nil))
//   Struct, Array, Slice, Tuple
//   Iface        interface value (T == nil: nil interface)
//   *Map, *Chan
//   *ssa.Function, *Closure, *ssa.Builtin
//   TimeVal, *time.Location, *SymTime   (time stub)
type Val = any

type Struct []Val
type Array []Val
type Slice []Val
type Tuple []Val

type Iface struct {
	T types.Type
	V Val
}

type Closure struct {
	Fn  *ssa.Function
	Env []Val
}

// BoundMethod is a method value obtained from an interface (x.M).
type BoundMethod struct {
	Recv Val
	Fn   *ssa.Function
}

type SymStr struct{ B []Val } // each element: int64 (byte) or *Term (W=8,S=false)

type Chan struct {
	buf    []Val
	cap    int
	closed bool
}

type mapEntry struct {
	k Val
	v *Val
}

type Map struct {
	kt, vt  types.Type
	entries []*mapEntry
}

type TimeVal struct{ T time.Time }

// rtype is used for reflect-free type identity of types as values (not needed) – placeholder.

func isNamed(t types.Type, pkg, name string) bool {
	n, ok := types.Unalias(t).(*types.Named)
	if !ok {
		return false
	}
	o := n.Obj()
	return o.Name() == name && o.Pkg() != nil && o.Pkg().Path() == pkg
}

func intKind(t types.Type) (w int, s bool, ok bool) {
	b, isb := t.Underlying().(*types.Basic)
	if !isb {
		return 0, false, false
	}
	switch b.Kind() {
	case types.Int, types.Int64, types.UntypedInt:
		return 64, true, true
	case types.Int8:
		return 8, true, true
	case types.Int16:
		return 16, true, true
	case types.Int32, types.UntypedRune:
		return 32, true, true
	case types.Uint, types.Uint64, types.Uintptr:
		return 64, false, true
	case types.Uint8:
		return 8, false, true
	case types.Uint16:
		return 16, false, true
	case types.Uint32:
		return 32, false, true
	}
	return 0, false, false
}

func isFloat(t types.Type) bool {
	b, ok := t.Underlying().(*types.Basic)
	return ok && b.Info()&types.IsFloat != 0
}

func isString(t types.Type) bool {
	b, ok := t.Underlying().(*types.Basic)
	return ok && b.Info()&types.IsString != 0
}

func isBoolT(t types.Type) bool {
	b, ok := t.Underlying().(*types.Basic)
	return ok && b.Info()&types.IsBoolean != 0
}

func zero(t types.Type) Val {
	if isNamed(t, "time", "Time") {
		return TimeVal{}
	}
	switch t := t.(type) {
	case *types.Basic:
		switch {
		case t.Kind() == types.UntypedNil:
			panic("untyped nil has no zero value")
		case t.Info()&types.IsBoolean != 0:
			return false
		case t.Info()&types.IsInteger != 0:
			return int64(0)
		case t.Info()&types.IsFloat != 0:
			return float64(0)
		case t.Info()&types.IsString != 0:
			return ""
		case t.Kind() == types.UnsafePointer:
			return (*Val)(nil)
		}
		panic(fmt.Sprint("zero for unexpected basic type: ", t))
	case *types.Pointer:
		return (*Val)(nil)
	case *types.Array:
		a := make(Array, t.Len())
		for i := range a {
			a[i] = zero(t.Elem())
		}
		return a
	case *types.Named:
		return zero(t.Underlying())
	case *types.Alias:
		return zero(types.Unalias(t))
	case *types.Interface:
		return Iface{}
	case *types.Slice:
		return Slice(nil)
	case *types.Struct:
		s := make(Struct, t.NumFields())
		for i := range s {
			s[i] = zero(t.Field(i).Type())
		}
		return s
	case *types.Tuple:
		if t.Len() == 1 {
			return zero(t.At(0).Type())
		}
		s := make(Tuple, t.Len())
		for i := range s {
			s[i] = zero(t.At(i).Type())
		}
		return s
	case *types.Chan:
		return (*Chan)(nil)
	case *types.Map:
		return (*Map)(nil)
	case *types.Signature:
		return (*Closure)(nil)
	}
	panic(fmt.Sprint("zero: unexpected type ", t))
}

func copyVal(v Val) Val {
	switch v := v.(type) {
	case Struct:
		c := make(Struct, len(v))
		for i, x := range v {
			c[i] = copyVal(x)
		}
		return c
	case Array:
		c := make(Array, len(v))
		for i, x := range v {
			c[i] = copyVal(x)
		}
		return c
	case Tuple:
		c := make(Tuple, len(v))
		for i, x := range v {
			c[i] = copyVal(x)
		}
		return c
	}
	return v
}

// toTerm lifts a concrete scalar into a term of type t.
func toTerm(v Val, t types.Type) *Term {
	switch v := v.(type) {
	case *Term:
		return v
	case bool:
		return mkBool(v)
	case int64:
		w, s, ok := intKind(t)
		if !ok {
			panic(fmt.Sprintf("toTerm: int64 of non-int type %v", t))
		}
		return mkConst(v, w, s)
	}
	panic(fmt.Sprintf("toTerm: unexpected %T", v))
}

// fromTerm lowers constant terms back to concrete scalars.
func fromTerm(t *Term) Val {
	if t.IsConst() {
		if t.W == 0 {
			return t.K != 0
		}
		return t.K
	}
	return t
}

func byteTerm(v Val) *Term {
	switch v := v.(type) {
	case *Term:
		return v
	case int64:
		return mkConst(v, 8, false)
	}
	panic(fmt.Sprintf("byteTerm: %T", v))
}

func isConcreteStr(v Val) (string, bool) {
	switch v := v.(type) {
	case string:
		return v, true
	case *SymStr:
		var sb strings.Builder
		for _, b := range v.B {
			c, ok := b.(int64)
			if !ok {
				return "", false
			}
			sb.WriteByte(byte(c))
		}
		return sb.String(), true
	}
	panic(fmt.Sprintf("not a string: %T", v))
}

func strBytes(v Val) []Val {
	switch v := v.(type) {
	case string:
		b := make([]Val, len(v))
		for i := 0; i < len(v); i++ {
			b[i] = int64(v[i])
		}
		return b
	case *SymStr:
		return v.B
	}
	panic(fmt.Sprintf("strBytes: %T", v))
}

func mkStr(b []Val) Val {
	for _, x := range b {
		if _, ok := x.(int64); !ok {
			return &SymStr{B: b}
		}
	}
	bs := make([]byte, len(b))
	for i, x := range b {
		bs[i] = byte(x.(int64))
	}
	return string(bs)
}

func strLen(v Val) int {
	switch v := v.(type) {
	case string:
		return len(v)
	case *SymStr:
		return len(v.B)
	}
	panic(fmt.Sprintf("strLen: %T", v))
}

func strEq(a, b Val) Val {
	if sa, ok := a.(string); ok {
		if sb, ok := b.(string); ok {
			return sa == sb
		}
	}
	ba, bb := strBytes(a), strBytes(b)
	if len(ba) != len(bb) {
		return false
	}
	r := tTrue
	for i := range ba {
		r = mkAnd(r, mkCmp("eq", byteTerm(ba[i]), byteTerm(bb[i])))
		if r.IsConst() && r.K == 0 {
			return false
		}
	}
	return fromTerm(r)
}

// strLess builds the lexicographic a<b term.
func strLess(a, b Val) Val {
	ba, bb := strBytes(a), strBytes(b)
	// from the end: less_i = a[i]<b[i] || (a[i]==b[i] && less_{i+1}); base: len(a)<len(b) at common end
	n := len(ba)
	if len(bb) < n {
		n = len(bb)
	}
	r := mkBool(len(ba) < len(bb))
	for i := n - 1; i >= 0; i-- {
		x, y := byteTerm(ba[i]), byteTerm(bb[i])
		r = mkOr(mkCmp("lt", x, y), mkAnd(mkCmp("eq", x, y), r))
	}
	return fromTerm(r)
}

// equals compares two values of static type t; result bool or *Term.
func equals(t types.Type, x, y Val) Val {
	switch x := x.(type) {
	case bool:
		switch y := y.(type) {
		case bool:
			return x == y
		case *Term:
			return fromTerm(mkCmp("eq", mkBool(x), y))
		}
	case int64:
		switch y := y.(type) {
		case int64:
			return x == y
		case *Term:
			return fromTerm(mkCmp("eq", mkConst(x, y.W, y.S), y))
		}
	case *Term:
		switch y := y.(type) {
		case *Term:
			return fromTerm(mkCmp("eq", x, y))
		case int64:
			return fromTerm(mkCmp("eq", x, mkConst(y, x.W, x.S)))
		case bool:
			return fromTerm(mkCmp("eq", x, mkBool(y)))
		}
	case float64:
		return x == y.(float64)
	case string, *SymStr:
		return strEq(x, y)
	case *Val:
		return x == y.(*Val)
	case *Map:
		return x == y.(*Map)
	case *Chan:
		return x == y.(*Chan)
	case TimeVal:
		return x == y.(TimeVal)
	case *time.Location:
		yl, _ := y.(*time.Location)
		return x == yl
	case Struct:
		y := y.(Struct)
		st := t.Underlying().(*types.Struct)
		r := tTrue
		for i := range x {
			if st.Field(i).Name() == "_" {
				continue
			}
			e := equals(st.Field(i).Type(), x[i], y[i])
			r = mkAnd(r, boolTerm(e))
		}
		return fromTerm(r)
	case Array:
		y := y.(Array)
		et := t.Underlying().(*types.Array).Elem()
		r := tTrue
		for i := range x {
			r = mkAnd(r, boolTerm(equals(et, x[i], y[i])))
		}
		return fromTerm(r)
	case Iface:
		y := y.(Iface)
		if x.T == nil || y.T == nil {
			return x.T == nil && y.T == nil
		}
		if !types.Identical(x.T, y.T) {
			return false
		}
		return equals(x.T, x.V, y.V)
	case Slice:
		ys, _ := y.(Slice)
		if x == nil || ys == nil {
			return x == nil && ys == nil
		}
		panic("comparison of two non-nil slices")
	case *Closure:
		if yc, ok := y.(*Closure); ok {
			return x == yc
		}
		return false
	case *ssa.Function:
		yf, _ := y.(*ssa.Function)
		return x == yf
	case *SymTime:
		panic(&pathEnd{kind: "inconclusive", msg: "== on symbolic time"})
	}
	if x == nil && y == nil {
		return true
	}
	panic(fmt.Sprintf("equals: unhandled %T vs %T (type %v)", x, y, t))
}

func boolTerm(v Val) *Term {
	switch v := v.(type) {
	case bool:
		return mkBool(v)
	case *Term:
		return v
	}
	panic(fmt.Sprintf("boolTerm: %T", v))
}

// ---------------------------------------------------------------- debug printing

func showVal(v Val) string {
	switch v := v.(type) {
	case nil:
		return "<nil>"
	case *Term:
		return "sym(" + (&printer{mode: modeBV}).str(v) + ")"
	case *SymStr:
		return fmt.Sprintf("symstr[%d]", len(v.B))
	case Struct:
		p := make([]string, len(v))
		for i, x := range v {
			p[i] = showVal(x)
		}
		return "{" + strings.Join(p, " ") + "}"
	case Slice:
		if len(v) > 32 {
			return fmt.Sprintf("slice[%d]", len(v))
		}
		p := make([]string, len(v))
		for i, x := range v {
			p[i] = showVal(x)
		}
		return "[" + strings.Join(p, " ") + "]"
	case Array:
		return "arr" + showVal(Slice(v))
	case Tuple:
		return "tuple" + showVal(Slice(v))
	case Iface:
		if v.T == nil {
			return "iface(nil)"
		}
		return "iface(" + v.T.String() + ":" + showVal(v.V) + ")"
	case *Val:
		if v == nil {
			return "ptr(nil)"
		}
		return fmt.Sprintf("ptr(%p)", v)
	case *ssa.Function:
		return "func " + v.String()
	case *Closure:
		if v == nil {
			return "func(nil)"
		}
		return "closure " + v.Fn.String()
	}
	return fmt.Sprintf("%v", v)
}
