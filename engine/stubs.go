package main

import (
	"math"
	"bufio"
	"bytes"
	"fmt"
	"regexp"
	"go/token"
	"go/types"
	"strconv"
	"strings"
	"time"

	"golang.org/x/tools/go/ssa"
)

type stubFn func(m *Machine, fr *frame, fn *ssa.Function, args []Val) Val

var stubs = map[string]stubFn{}

// packages whose functions may be executed from their SSA (pure Go, no package state needed)
var interpretablePkgs = map[string]bool{
	"sort": true, "errors": true, "unicode/utf8": true, "unicode": true, "math/bits": true,
	"github.com/pkg/errors": true, "slices": true, "cmp": true, "bytes": true, "strings": true, "path": true,
	"internal/bytealg": true, "strconv": true, "internal/stringslite": true, "io": true,
}

func inconclusive(format string, a ...any) {
	panic(&pathEnd{kind: "inconclusive", msg: fmt.Sprintf(format, a...)})
}

func cInt(m *Machine, v Val, what string) int64 {
	if i, ok := v.(int64); ok {
		return i
	}
	inconclusive("symbolic integer passed to %s at %s", what, m.posStr(m.curFrame))
	return 0
}

func cStr(m *Machine, v Val, what string) string {
	s, ok := isConcreteStr(v)
	if !ok {
		inconclusive("symbolic string passed to %s at %s", what, m.posStr(m.curFrame))
	}
	return s
}

func cBytes(m *Machine, v Val, what string) ([]byte, bool) {
	s, _ := v.(Slice)
	b := make([]byte, len(s))
	for i, x := range s {
		c, ok := x.(int64)
		if !ok {
			return nil, false
		}
		b[i] = byte(c)
	}
	return b, true
}

func bytesVal(b []byte) Slice {
	if b == nil {
		return Slice(nil)
	}
	s := make(Slice, len(b))
	for i, c := range b {
		s[i] = int64(c)
	}
	return s
}

func strSliceVal(ss []string) Slice {
	s := make(Slice, len(ss))
	for i, x := range ss {
		s[i] = x
	}
	return s
}

// errVal builds an error interface value from the errors package's errorString type.
func (m *Machine) errVal(fr *frame, msg string) Val {
	f := m.ex.pkgFunc("errors", "New")
	return m.callSSA(fr, token.NoPos, f, []Val{msg}, nil)
}

func (ex *Explorer) pkgFunc(pkg, name string) *ssa.Function {
	for _, p := range ex.prog.AllPackages() {
		if p.Pkg.Path() == pkg {
			return p.Func(name)
		}
	}
	panic("package not loaded: " + pkg)
}

func (ex *Explorer) pkgGlobalType(pkg, name string) types.Type {
	for _, p := range ex.prog.AllPackages() {
		if p.Pkg.Path() == pkg {
			if o := p.Pkg.Scope().Lookup(name); o != nil {
				return o.Type()
			}
		}
	}
	panic("type not found: " + pkg + "." + name)
}

// externGlobal provides values for the few standard-library variables the code reads.
func (m *Machine) externGlobal(g *ssa.Global) (Val, bool) {
	key := g.Pkg.Pkg.Path() + "." + g.Name()
	m.ex.mu.Lock()
	if m.ex.shared == nil {
		m.ex.shared = map[string]Val{}
	}
	v, ok := m.ex.shared[key]
	m.ex.mu.Unlock()
	if ok {
		return v, true
	}
	mk := func(msg string) Val { return m.errVal(nil, msg) }
	switch key {
	case "time.UTC":
		v = time.UTC
	case "time.Local":
		v = time.UTC // the harness environment runs with TZ=UTC
	case "io.EOF":
		v = mk("EOF")
	case "io.ErrUnexpectedEOF":
		v = mk("unexpected EOF")
	case "io.ErrShortWrite":
		v = mk("short write")
	case "os.ErrNotExist", "io/fs.ErrNotExist":
		v = mk("file does not exist")
	case "bytes.ErrTooLarge":
		v = mk("bytes.Buffer: too large")
	case "strconv.ErrSyntax":
		v = mk("invalid syntax")
	case "strconv.ErrRange":
		v = mk("value out of range")
	case "internal/bytealg.MaxLen":
		v = int64(0)
	default:
		return nil, false
	}
	m.ex.mu.Lock()
	m.ex.shared[key] = v
	m.ex.mu.Unlock()
	return v, true
}

// ------------------------------------------------------------------ byte scanning on symbolic content

// indexByte returns the index of the first byte equal to c, forking on symbolic content.
func (m *Machine) indexByte(b []Val, c Val) int64 {
	ct := byteTerm(c)
	for i, x := range b {
		if m.decide(mkCmp("eq", byteTerm(x), ct)) {
			return int64(i)
		}
	}
	return -1
}

func (m *Machine) indexSeq(b, sep []Val) int64 {
	if len(sep) == 0 {
		return 0
	}
	for i := 0; i+len(sep) <= len(b); i++ {
		eq := tTrue
		for j := range sep {
			eq = mkAnd(eq, mkCmp("eq", byteTerm(b[i+j]), byteTerm(sep[j])))
		}
		if m.decide(eq) {
			return int64(i)
		}
	}
	return -1
}

func (m *Machine) countSeq(b, sep []Val) int64 {
	if len(sep) == 0 {
		return int64(len(b) + 1)
	}
	n := int64(0)
	for i := 0; i+len(sep) <= len(b); {
		eq := tTrue
		for j := range sep {
			eq = mkAnd(eq, mkCmp("eq", byteTerm(b[i+j]), byteTerm(sep[j])))
		}
		if m.decide(eq) {
			n++
			i += len(sep)
		} else {
			i++
		}
	}
	return n
}

// symDigits returns the decimal digits (most significant first) of a non-negative symbolic integer,
// forking on the digit count and introducing auxiliary digit variables d_k with Σ d_k·10^k = t.
func (m *Machine) symDigits(t *Term, minDigits int) []Val {
	for _, c := range m.digitCache {
		if c.min == minDigits && (c.t == t || sameTerm(c.t, t)) {
			return c.d
		}
	}
	n := 0
	if minDigits > 0 && minDigits < 19 {
		// no fork when the value provably fits the padded width
		lim := int64(1)
		for i := 0; i < minDigits; i++ {
			lim *= 10
		}
		ge := mkNot(mkCmp("lt", t, mkConst(lim, t.W, t.S)))
		if known, v := m.facts.qeval(ge); (known && !v) || (!known && m.solver.Check(ge) == Unsat) {
			n = minDigits
		}
	}
	if n == 0 {
		n = 1
		pow := int64(10)
		for n < 19 {
			if m.decide(mkCmp("lt", t, mkConst(pow, t.W, t.S))) {
				break
			}
			n++
			if n < 19 {
				pow *= 10
			}
		}
	}
	digits := make([]Val, n)
	sum := mkConst(0, t.W, t.S)
	p := int64(1)
	m.digitSeq++
	for k := 0; k < n; k++ {
		d := mkVar(fmt.Sprintf("dig!%d!%d", m.digitSeq, k), 8, false)
		m.assertPC(mkCmp("le", d, mkConst(9, 8, false)))
		d.rlo, d.rhi, d.rstate = 0, 9, 1 // attached after the constraint was built (comparisons fold on static ranges)
		sum = mkArith("add", sum, mkArith("mul", mkConv(d, t.W, t.S), mkConst(p, t.W, t.S)))
		digits[n-1-k] = fromTerm(mkArith("add", d, mkConst('0', 8, false)))
		p *= 10
	}
	m.assertPC(mkCmp("eq", sum, t))
	m.digitCache = append(m.digitCache, digitEntry{t: t, min: minDigits, d: digits})
	return digits
}

type digitEntry struct {
	t   *Term
	min int
	d   []Val
}

// formatInt renders a (possibly symbolic) integer in base 10.
func (m *Machine) formatInt(v Val, minWidth int, zeroPad bool) []Val {
	var out []Val
	switch x := v.(type) {
	case int64:
		s := strconv.FormatInt(x, 10)
		if minWidth > 0 {
			if zeroPad {
				s = fmt.Sprintf("%0*d", minWidth, x)
			} else {
				s = fmt.Sprintf("%*d", minWidth, x)
			}
		}
		return strBytes(s)
	case *Term:
		neg := false
		t := x
		if x.S && m.decide(mkCmp("lt", x, mkConst(0, x.W, x.S))) {
			neg = true
			if x.Op == "sub" && x.Args[0].IsConst() && x.Args[0].K == 0 {
				t = x.Args[1] // -(-y) = y: keeps the term the digit cache knows
			} else {
				t = mkArith("sub", mkConst(0, x.W, x.S), x)
			}
		}
		md := 0
		if zeroPad && !neg {
			md = minWidth
		}
		d := m.symDigits(t, md)
		pad := minWidth - len(d)
		if neg {
			pad--
			if zeroPad {
				out = append(out, int64('-'))
			}
		}
		for i := 0; i < pad; i++ {
			if zeroPad {
				out = append(out, int64('0'))
			} else {
				out = append(out, int64(' '))
			}
		}
		if neg && !zeroPad {
			out = append(out, int64('-'))
		}
		return append(out, d...)
	}
	panic(fmt.Sprintf("formatInt: %T", v))
}

// parseDecimal models strconv.Atoi/ParseInt(s,10,64) on possibly symbolic bytes: returns value and ok.
func (m *Machine) parseDecimal(b []Val) (Val, bool) {
	if len(b) == 0 {
		return int64(0), false
	}
	neg := false
	first := byteTerm(b[0])
	if m.decide(mkCmp("eq", first, mkConst('-', 8, false))) {
		neg = true
		b = b[1:]
	} else if m.decide(mkCmp("eq", first, mkConst('+', 8, false))) {
		b = b[1:]
	}
	if len(b) == 0 || len(b) > 19 {
		if len(b) > 19 {
			inconclusive("decimal text longer than 19 digits in strconv model")
		}
		return int64(0), false
	}
	if len(b) == 19 && m.ex.cfg.Mode != modeLIA {
		inconclusive("19-digit decimal text needs the integer encoding")
	}
	ok := tTrue
	for _, x := range b {
		t := byteTerm(x)
		ok = mkAnd(ok, mkAnd(mkCmp("le", mkConst('0', 8, false), t), mkCmp("le", t, mkConst('9', 8, false))))
	}
	if !m.decide(ok) {
		return int64(0), false
	}
	acc := mkConst(0, 64, true)
	for _, x := range b {
		d := mkArith("sub", mkConv(byteTerm(x), 64, true), mkConst('0', 64, true))
		acc = mkArith("add", mkArith("mul", acc, mkConst(10, 64, true)), d)
	}
	if len(b) == 19 {
		// value may exceed the int64 range: strconv reports a range error then
		if !m.decide(mkCmp("le", acc, mkConst(1<<63-1, 64, true))) {
			return int64(0), false
		}
	}
	if neg {
		acc = mkArith("sub", mkConst(0, 64, true), acc)
	}
	return fromTerm(acc), true
}

// ------------------------------------------------------------------ fmt

// nativeArg converts an interface-boxed interpreted value to something fmt can print;
// symbolic content is returned as raw bytes ([]Val) with sym=true.
func (m *Machine) nativeArg(fr *frame, a Val) (nat any, symBytes []Val, sym bool) {
	it, ok := a.(Iface)
	if !ok {
		return fmt.Sprint(a), nil, false
	}
	if it.T == nil {
		return nil, nil, false
	}
	for _, meth := range []string{"Error", "String"} {
		if f := m.lookupMethod(it.T, meth); f != nil && f.Signature.Params().Len() == 0 && f.Signature.Results().Len() == 1 && isString(f.Signature.Results().At(0).Type()) {
			if p, isPtr := it.V.(*Val); isPtr && p == nil {
				return "<nil>", nil, false
			}
			r := m.callSSA(fr, token.NoPos, f, []Val{it.V}, nil)
			if s, ok := isConcreteStr(r); ok {
				return s, nil, false
			}
			return nil, strBytes(r), true
		}
	}
	switch v := it.V.(type) {
	case bool:
		return v, nil, false
	case int64:
		if _, s, _ := intKind(it.T); !s {
			return uint64(v), nil, false
		}
		return v, nil, false
	case float64:
		return v, nil, false
	case string:
		return v, nil, false
	case *SymStr:
		return nil, v.B, true
	case *Term:
		return v, nil, true
	case Slice:
		if sl, ok := it.T.Underlying().(*types.Slice); ok {
			if b, ok := sl.Elem().Underlying().(*types.Basic); ok && b.Kind() == types.Uint8 {
				if bs, ok := cBytes(m, v, "fmt"); ok {
					return bs, nil, false
				}
				return nil, v, true
			}
		}
		return fmt.Sprintf("<%s len %d>", it.T, len(v)), nil, false
	case TimeVal:
		return v.T, nil, false
	case *Val:
		if v == nil {
			return "<nil>", nil, false
		}
		return fmt.Sprintf("<%s>", it.T), nil, false
	}
	return fmt.Sprintf("<%s>", it.T), nil, false
}

func (m *Machine) sprintf(fr *frame, format string, args []Val) Val {
	var out []Val
	emit := func(s string) { out = append(out, strBytes(s)...) }
	ai := 0
	for i := 0; i < len(format); {
		c := format[i]
		if c != '%' {
			out = append(out, int64(c))
			i++
			continue
		}
		j := i + 1
		for j < len(format) && strings.IndexByte("+-# 0123456789.*[]", format[j]) >= 0 {
			j++
		}
		if j >= len(format) {
			emit(format[i:])
			break
		}
		verb := format[j]
		spec := format[i : j+1]
		i = j + 1
		if verb == '%' {
			out = append(out, int64('%'))
			continue
		}
		if ai >= len(args) {
			emit("%!" + string(verb) + "(MISSING)")
			continue
		}
		nat, sb, sym := m.nativeArg(fr, args[ai])
		ai++
		if verb == 'w' {
			spec = spec[:len(spec)-1] + "v"
			verb = 'v'
		}
		if !sym {
			emit(fmt.Sprintf(spec, nat))
			continue
		}
		if t, isT := nat.(*Term); isT {
			if t.W > 0 && (verb == 'd' || verb == 'v') {
				width, zp := 0, false
				fl := spec[1 : len(spec)-1]
				if strings.HasPrefix(fl, "0") {
					zp = true
				}
				if w, err := strconv.Atoi(strings.TrimLeft(fl, "0")); err == nil {
					width = w
				}
				out = append(out, m.formatInt(t, width, zp)...)
			} else {
				emit("?")
			}
			continue
		}
		switch verb {
		case 's', 'v':
			out = append(out, sb...)
		case 'q':
			out = append(out, int64('"'))
			out = append(out, sb...)
			out = append(out, int64('"'))
		default:
			emit("?")
		}
	}
	for ; ai < len(args); ai++ {
		emit("%!(EXTRA)")
	}
	return mkStr(out)
}

func variadic(a Val) []Val {
	s, _ := a.(Slice)
	return []Val(s)
}

// ------------------------------------------------------------------ registration

func init() {
	nop := func(m *Machine, fr *frame, fn *ssa.Function, a []Val) Val { return nil }
	// sync
	// plain sync mutexes (FieldMap.rwLock, store mutexes): exclusion without scheduling points; the session's
	// sendMutex/resendMutex are verifMutex types (threads.go) whose operations are scheduling points
	for _, n := range []string{"(*sync.Mutex).Lock", "(*sync.RWMutex).Lock", "(*sync.RWMutex).RLock"} {
		rd := strings.HasSuffix(n, "RLock")
		stubs[n] = func(m *Machine, fr *frame, fn *ssa.Function, a []Val) Val {
			p := a[0].(*Val)
			if p == nil {
				m.rtPanic(fr, "nil pointer dereference (mutex)")
			}
			ls := m.lockOf(p)
			if !ls.canLock(rd) {
				panic(&pathEnd{kind: "deadlock", msg: "lock of a sync mutex that is held at " + m.posStr(fr)})
			}
			if rd {
				ls.readers[m.cur]++
				ls.nread++
			} else {
				ls.wHeld, ls.writer = true, m.cur
			}
			return nil
		}
	}
	for _, n := range []string{"(*sync.Mutex).Unlock", "(*sync.RWMutex).Unlock", "(*sync.RWMutex).RUnlock"} {
		rd := strings.HasSuffix(n, "RUnlock")
		stubs[n] = func(m *Machine, fr *frame, fn *ssa.Function, a []Val) Val {
			p := a[0].(*Val)
			ls := m.lockOf(p)
			if rd {
				if ls.nread == 0 {
					panic(&goPanic{msg: "sync: RUnlock of unlocked RWMutex", pos: m.posStr(fr)})
				}
				ls.readers[m.cur]--
				ls.nread--
			} else {
				if !ls.wHeld {
					panic(&goPanic{msg: "sync: unlock of unlocked mutex", pos: m.posStr(fr)})
				}
				ls.wHeld, ls.writer = false, nil
			}
			return nil
		}
	}
	stubs["(*sync.Once).Do"] = func(m *Machine, fr *frame, fn *ssa.Function, a []Val) Val {
		p := a[0].(*Val)
		if m.locks[p] == 0 {
			m.locks[p] = 1
			m.call(fr, token.NoPos, a[1], nil)
		}
		return nil
	}
	// sync.Map as an insertion-ordered map from interface keys to interface values, one per sync.Map variable
	// (package-level caches live for the length of a path)
	syncMapOf := func(m *Machine, fr *frame, a Val) *Map {
		p, _ := a.(*Val)
		if p == nil {
			m.rtPanic(fr, "nil pointer dereference (sync.Map)")
		}
		if m.syncMaps == nil {
			m.syncMaps = map[*Val]*Map{}
		}
		mp := m.syncMaps[p]
		if mp == nil {
			anyT := types.NewInterfaceType(nil, nil)
			mp = &Map{kt: anyT, vt: anyT}
			m.syncMaps[p] = mp
		}
		return mp
	}
	stubs["(*sync.Map).Load"] = func(m *Machine, fr *frame, fn *ssa.Function, a []Val) Val {
		if e := m.mapFind(syncMapOf(m, fr, a[0]), a[1]); e != nil {
			return Tuple{*e.v, true}
		}
		return Tuple{Iface{}, false}
	}
	stubs["(*sync.Map).Store"] = func(m *Machine, fr *frame, fn *ssa.Function, a []Val) Val {
		m.mapSet(syncMapOf(m, fr, a[0]), a[1], a[2])
		return nil
	}
	stubs["(*sync.Map).LoadOrStore"] = func(m *Machine, fr *frame, fn *ssa.Function, a []Val) Val {
		mp := syncMapOf(m, fr, a[0])
		if e := m.mapFind(mp, a[1]); e != nil {
			return Tuple{*e.v, true}
		}
		m.mapSet(mp, a[1], a[2])
		return Tuple{a[2], false}
	}
	stubs["(*sync.Map).Delete"] = func(m *Machine, fr *frame, fn *ssa.Function, a []Val) Val {
		m.mapDelete(syncMapOf(m, fr, a[0]), a[1])
		return nil
	}
	stubs["(*sync.Map).Range"] = func(m *Machine, fr *frame, fn *ssa.Function, a []Val) Val {
		mp := syncMapOf(m, fr, a[0])
		for _, e := range append([]*mapEntry{}, mp.entries...) {
			r := m.call(fr, token.NoPos, a[1], []Val{e.k, *e.v})
			if b, ok := r.(bool); ok && !b {
				break
			}
		}
		return nil
	}
	// math on concrete floats natively; a whole-number symbolic float is its own Trunc/Floor/Ceil
	for name, f := range map[string]func(float64) float64{"math.Trunc": math.Trunc, "math.Floor": math.Floor, "math.Ceil": math.Ceil, "math.Abs": math.Abs, "math.Round": math.Round} {
		name, f := name, f
		stubs[name] = func(m *Machine, fr *frame, fn *ssa.Function, a []Val) Val {
			if sf, ok := a[0].(*SymFloat); ok {
				if sf.I != nil && name != "math.Abs" {
					return sf
				}
				return f(m.sfConc(sf))
			}
			return f(a[0].(float64))
		}
	}
	stubs["math.IsNaN"] = func(m *Machine, fr *frame, fn *ssa.Function, a []Val) Val {
		if _, ok := a[0].(*SymFloat); ok {
			return false
		}
		return math.IsNaN(a[0].(float64))
	}
	stubs["math.IsInf"] = func(m *Machine, fr *frame, fn *ssa.Function, a []Val) Val {
		if _, ok := a[0].(*SymFloat); ok {
			return false
		}
		return math.IsInf(a[0].(float64), int(cInt(m, a[1], "IsInf sign")))
	}
	// sync.Pool: a last-in first-out free list per Pool variable; Get falls back to the New function
	stubs["(*sync.Pool).Put"] = func(m *Machine, fr *frame, fn *ssa.Function, a []Val) Val {
		p, _ := a[0].(*Val)
		if p == nil {
			m.rtPanic(fr, "nil pointer dereference (sync.Pool)")
		}
		if m.syncPools == nil {
			m.syncPools = map[*Val][]Val{}
		}
		if iv, ok := a[1].(Iface); ok && iv.T == nil {
			return nil // Put(nil) is ignored
		}
		m.syncPools[p] = append(m.syncPools[p], a[1])
		return nil
	}
	stubs["(*sync.Pool).Get"] = func(m *Machine, fr *frame, fn *ssa.Function, a []Val) Val {
		p, _ := a[0].(*Val)
		if p == nil {
			m.rtPanic(fr, "nil pointer dereference (sync.Pool)")
		}
		if items := m.syncPools[p]; len(items) > 0 {
			v := items[len(items)-1]
			m.syncPools[p] = items[:len(items)-1]
			return v
		}
		// the New field is the last field of sync.Pool
		st, _ := (*p).(Struct)
		recv := fn.Signature.Recv().Type().(*types.Pointer).Elem().Underlying().(*types.Struct)
		for i := 0; i < recv.NumFields(); i++ {
			if recv.Field(i).Name() == "New" && i < len(st) && st[i] != nil {
				if c, isNil := st[i].(*Closure); !isNil || c != nil {
					return m.call(fr, token.NoPos, st[i], nil)
				}
			}
		}
		return Iface{}
	}
	stubs["(*sync.WaitGroup).Add"] = nop
	stubs["(*sync.WaitGroup).Done"] = nop
	stubs["(*sync.WaitGroup).Wait"] = nop

	// bytes / bytealg
	stubs["bytes.IndexByte"] = func(m *Machine, fr *frame, fn *ssa.Function, a []Val) Val {
		s, _ := a[0].(Slice)
		return m.indexByte(s, a[1])
	}
	stubs["internal/bytealg.IndexByte"] = stubs["bytes.IndexByte"]
	stubs["internal/bytealg.IndexByteString"] = func(m *Machine, fr *frame, fn *ssa.Function, a []Val) Val {
		return m.indexByte(strBytes(a[0]), a[1])
	}
	stubs["strings.IndexByte"] = stubs["internal/bytealg.IndexByteString"]
	stubs["bytes.Index"] = func(m *Machine, fr *frame, fn *ssa.Function, a []Val) Val {
		s, _ := a[0].(Slice)
		sep, _ := a[1].(Slice)
		return m.indexSeq(s, sep)
	}
	stubs["bytes.Count"] = func(m *Machine, fr *frame, fn *ssa.Function, a []Val) Val {
		s, _ := a[0].(Slice)
		sep, _ := a[1].(Slice)
		return m.countSeq(s, sep)
	}
	stubs["bytes.Equal"] = func(m *Machine, fr *frame, fn *ssa.Function, a []Val) Val {
		x, _ := a[0].(Slice)
		y, _ := a[1].(Slice)
		return strEq(&SymStr{B: x}, &SymStr{B: y})
	}
	stubs["bytes.HasPrefix"] = func(m *Machine, fr *frame, fn *ssa.Function, a []Val) Val {
		x, _ := a[0].(Slice)
		y, _ := a[1].(Slice)
		if len(x) < len(y) {
			return false
		}
		return strEq(&SymStr{B: x[:len(y)]}, &SymStr{B: y})
	}
	stubs["strings.Index"] = func(m *Machine, fr *frame, fn *ssa.Function, a []Val) Val {
		return m.indexSeq(strBytes(a[0]), strBytes(a[1]))
	}
	stubs["strings.Compare"] = func(m *Machine, fr *frame, fn *ssa.Function, a []Val) Val {
		x, okx := isConcreteStr(a[0])
		y, oky := isConcreteStr(a[1])
		if okx && oky {
			return int64(strings.Compare(x, y))
		}
		if m.decideVal(strEq(a[0], a[1])) {
			return int64(0)
		}
		if m.decideVal(strLess(a[0], a[1])) {
			return int64(-1)
		}
		return int64(1)
	}
	// bytes.Buffer as a plain growing slice: fields (buf []byte, off int, lastRead)
	bufField := func(m *Machine, fr *frame, a Val) *Val {
		p := a.(*Val)
		if p == nil {
			m.rtPanic(fr, "nil pointer dereference (bytes.Buffer)")
		}
		return &(*p).(Struct)[0]
	}
	bufAppend := func(m *Machine, fr *frame, a Val, add []Val) {
		f := bufField(m, fr, a)
		s, _ := (*f).(Slice)
		// in place while the capacity lasts (as bytes.Buffer does): after a Reset the old bytes are overwritten, and
		// whatever still points into them sees the new content
		*f = appendVals(s, append([]Val{}, add...))
	}
	stubs["(*bytes.Buffer).Write"] = func(m *Machine, fr *frame, fn *ssa.Function, a []Val) Val {
		s, _ := a[1].(Slice)
		bufAppend(m, fr, a[0], s)
		return Tuple{int64(len(s)), Iface{}}
	}
	stubs["(*bytes.Buffer).WriteString"] = func(m *Machine, fr *frame, fn *ssa.Function, a []Val) Val {
		bufAppend(m, fr, a[0], strBytes(a[1]))
		return Tuple{int64(strLen(a[1])), Iface{}}
	}
	stubs["(*bytes.Buffer).WriteByte"] = func(m *Machine, fr *frame, fn *ssa.Function, a []Val) Val {
		bufAppend(m, fr, a[0], []Val{a[1]})
		return Iface{}
	}
	stubs["(*bytes.Buffer).Bytes"] = func(m *Machine, fr *frame, fn *ssa.Function, a []Val) Val {
		f := bufField(m, fr, a[0])
		s, _ := (*f).(Slice)
		return s
	}
	stubs["(*bytes.Buffer).String"] = func(m *Machine, fr *frame, fn *ssa.Function, a []Val) Val {
		if p := a[0].(*Val); p == nil {
			return "<nil>"
		}
		f := bufField(m, fr, a[0])
		s, _ := (*f).(Slice)
		return mkStr(append([]Val{}, s...))
	}
	stubs["(*bytes.Buffer).Len"] = func(m *Machine, fr *frame, fn *ssa.Function, a []Val) Val {
		f := bufField(m, fr, a[0])
		s, _ := (*f).(Slice)
		return int64(len(s))
	}
	stubs["(*bytes.Buffer).Reset"] = func(m *Machine, fr *frame, fn *ssa.Function, a []Val) Val {
		f := bufField(m, fr, a[0])
		if s, ok := (*f).(Slice); ok && s != nil {
			*f = s[:0] // keeps the storage, as bytes.Buffer does
		} else {
			*f = Slice(nil)
		}
		return nil
	}

	stubs["bytes.NewBuffer"] = func(m *Machine, fr *frame, fn *ssa.Function, a []Val) Val {
		st := zero(fn.Signature.Results().At(0).Type().(*types.Pointer).Elem()).(Struct)
		st[0] = a[0]
		p := new(Val)
		*p = st
		return p
	}
	stubs["bytes.NewBufferString"] = func(m *Machine, fr *frame, fn *ssa.Function, a []Val) Val {
		st := zero(fn.Signature.Results().At(0).Type().(*types.Pointer).Elem()).(Struct)
		st[0] = Slice(append([]Val{}, strBytes(a[0])...))
		p := new(Val)
		*p = st
		return p
	}
	// strconv
	stubs["strconv.Itoa"] = func(m *Machine, fr *frame, fn *ssa.Function, a []Val) Val {
		return mkStr(m.formatInt(a[0], 0, false))
	}
	stubs["strconv.FormatInt"] = func(m *Machine, fr *frame, fn *ssa.Function, a []Val) Val {
		if cInt(m, a[1], "FormatInt base") != 10 {
			return strconv.FormatInt(cInt(m, a[0], "FormatInt"), int(a[1].(int64)))
		}
		return mkStr(m.formatInt(a[0], 0, false))
	}
	stubs["strconv.AppendInt"] = func(m *Machine, fr *frame, fn *ssa.Function, a []Val) Val {
		if cInt(m, a[2], "AppendInt base") != 10 {
			inconclusive("AppendInt base != 10")
		}
		// appends in place when dst has room, as strconv does: callers that pass buf[:0] reuse (and alias) buf
		dst, _ := a[0].(Slice)
		return appendVals(dst, m.formatInt(a[1], 0, false))
	}
	stubs["strconv.Atoi"] = func(m *Machine, fr *frame, fn *ssa.Function, a []Val) Val {
		if s, ok := isConcreteStr(a[0]); ok {
			v, err := strconv.Atoi(s)
			if err != nil {
				return Tuple{int64(0), m.errVal(fr, err.Error())}
			}
			return Tuple{int64(v), Iface{}}
		}
		v, ok := m.parseDecimal(strBytes(a[0]))
		if !ok {
			return Tuple{int64(0), m.errVal(fr, "strconv.Atoi: invalid syntax")}
		}
		return Tuple{v, Iface{}}
	}
	stubs["strconv.ParseFloat"] = func(m *Machine, fr *frame, fn *ssa.Function, a []Val) Val {
		s, ok := isConcreteStr(a[0])
		if !ok {
			return m.parseFloatSym(fr, strBytes(a[0]))
		}
		v, err := strconv.ParseFloat(s, int(cInt(m, a[1], "ParseFloat")))
		if err != nil {
			return Tuple{v, m.errVal(fr, err.Error())}
		}
		return Tuple{v, Iface{}}
	}
	stubs["strconv.FormatFloat"] = func(m *Machine, fr *frame, fn *ssa.Function, a []Val) Val {
		if sf, ok := a[0].(*SymFloat); ok {
			// whole numbers up to 2^53 print as their integer in the 'f' format with the shortest precision
			if cInt(m, a[1], "fmt") == 'f' && cInt(m, a[2], "prec") == -1 && cInt(m, a[3], "bits") == 64 && m.sfExact(sf) {
				return mkStr(m.formatInt(fromTerm(sf.I), 0, false))
			}
			a[0] = m.sfConc(sf)
		}
		f, ok := a[0].(float64)
		if !ok {
			inconclusive("FormatFloat of abstract float")
		}
		return strconv.FormatFloat(f, byte(cInt(m, a[1], "fmt")), int(cInt(m, a[2], "prec")), int(cInt(m, a[3], "bits")))
	}
	stubs["strconv.ParseBool"] = func(m *Machine, fr *frame, fn *ssa.Function, a []Val) Val {
		v, err := strconv.ParseBool(cStr(m, a[0], "ParseBool"))
		if err != nil {
			return Tuple{false, m.errVal(fr, err.Error())}
		}
		return Tuple{v, Iface{}}
	}

	// fmt
	stubs["fmt.Sprintf"] = func(m *Machine, fr *frame, fn *ssa.Function, a []Val) Val {
		return m.sprintf(fr, cStr(m, a[0], "Sprintf format"), variadic(a[1]))
	}
	stubs["fmt.Errorf"] = func(m *Machine, fr *frame, fn *ssa.Function, a []Val) Val {
		s := m.sprintf(fr, cStr(m, a[0], "Errorf format"), variadic(a[1]))
		f := m.ex.pkgFunc("errors", "New")
		return m.callSSA(fr, token.NoPos, f, []Val{s}, nil)
	}
	stubs["fmt.Fprintf"] = func(m *Machine, fr *frame, fn *ssa.Function, a []Val) Val {
		w := a[0].(Iface)
		if w.T == nil {
			m.rtPanic(fr, "nil io.Writer in Fprintf")
		}
		text := m.sprintf(fr, cStr(m, a[1], "Fprintf format"), variadic(a[2]))
		wf := m.lookupMethod(w.T, "Write")
		if wf == nil {
			inconclusive("Fprintf: writer without Write method")
		}
		return m.callSSA(fr, token.NoPos, wf, []Val{w.V, Slice(append([]Val{}, strBytes(text)...))}, nil)
	}
	stubs["fmt.Fscanf"] = func(m *Machine, fr *frame, fn *ssa.Function, a []Val) Val {
		return m.fscanf(fr, a[0].(Iface), cStr(m, a[1], "Fscanf format"), variadic(a[2]))
	}
	stubs["fmt.Sprint"] = func(m *Machine, fr *frame, fn *ssa.Function, a []Val) Val {
		args := variadic(a[0])
		return m.sprintf(fr, strings.Repeat("%v", len(args)), args)
	}
	stubs["fmt.Println"] = func(m *Machine, fr *frame, fn *ssa.Function, a []Val) Val { return Tuple{int64(0), Iface{}} }
	stubs["fmt.Printf"] = func(m *Machine, fr *frame, fn *ssa.Function, a []Val) Val { return Tuple{int64(0), Iface{}} }

	// errors
	stubs["errors.Is"] = func(m *Machine, fr *frame, fn *ssa.Function, a []Val) Val {
		return m.errorsIs(fr, a[0].(Iface), a[1].(Iface))
	}
	stubs["github.com/pkg/errors.Is"] = stubs["errors.Is"]
	stubs["github.com/pkg/errors.callers"] = func(m *Machine, fr *frame, fn *ssa.Function, a []Val) Val { return (*Val)(nil) }

	// strings (concrete natives)
	s1 := func(f func(string) string) stubFn {
		return func(m *Machine, fr *frame, fn *ssa.Function, a []Val) Val { return f(cStr(m, a[0], fn.Name())) }
	}
	stubs["strings.TrimSpace"] = s1(strings.TrimSpace)
	stubs["strings.ToUpper"] = s1(strings.ToUpper)
	stubs["strings.ToLower"] = s1(strings.ToLower)
	stubs["strings.Trim"] = func(m *Machine, fr *frame, fn *ssa.Function, a []Val) Val {
		cut := cStr(m, a[1], "Trim cutset")
		if s, ok := isConcreteStr(a[0]); ok {
			return strings.Trim(s, cut)
		}
		b := strBytes(a[0])
		in := func(x Val) bool {
			t := byteTerm(x)
			c := tFalse
			for i := 0; i < len(cut); i++ {
				c = mkOr(c, mkCmp("eq", t, mkConst(int64(cut[i]), 8, false)))
			}
			return m.decide(c)
		}
		for len(b) > 0 && in(b[0]) {
			b = b[1:]
		}
		for len(b) > 0 && in(b[len(b)-1]) {
			b = b[:len(b)-1]
		}
		return mkStr(append([]Val{}, b...))
	}
	stubs["strings.Split"] = func(m *Machine, fr *frame, fn *ssa.Function, a []Val) Val {
		return strSliceVal(strings.Split(cStr(m, a[0], "Split"), cStr(m, a[1], "Split")))
	}
	stubs["strings.Join"] = func(m *Machine, fr *frame, fn *ssa.Function, a []Val) Val {
		parts, _ := a[0].(Slice)
		sep := strBytes(a[1])
		var out []Val
		for i, p := range parts {
			if i > 0 {
				out = append(out, sep...)
			}
			out = append(out, strBytes(p)...)
		}
		return mkStr(out)
	}
	stubs["strings.LastIndex"] = func(m *Machine, fr *frame, fn *ssa.Function, a []Val) Val {
		return int64(strings.LastIndex(cStr(m, a[0], "LastIndex"), cStr(m, a[1], "LastIndex")))
	}
	stubs["strings.Contains"] = func(m *Machine, fr *frame, fn *ssa.Function, a []Val) Val {
		return m.indexSeq(strBytes(a[0]), strBytes(a[1])) >= 0
	}
	stubs["strings.HasPrefix"] = func(m *Machine, fr *frame, fn *ssa.Function, a []Val) Val {
		x, y := strBytes(a[0]), strBytes(a[1])
		if len(x) < len(y) {
			return false
		}
		return strEq(&SymStr{B: x[:len(y)]}, &SymStr{B: y})
	}
	stubs["strings.EqualFold"] = func(m *Machine, fr *frame, fn *ssa.Function, a []Val) Val {
		return strings.EqualFold(cStr(m, a[0], "EqualFold"), cStr(m, a[1], "EqualFold"))
	}
	stubs["path.Join"] = func(m *Machine, fr *frame, fn *ssa.Function, a []Val) Val {
		var parts []string
		for _, p := range variadic(a[0]) {
			parts = append(parts, cStr(m, p, "path.Join"))
		}
		return strings.Join(parts, "/")
	}
	registerTimeStubs()
}

func (m *Machine) errorsIs(fr *frame, err, target Iface) Val {
	for depth := 0; depth < 16; depth++ {
		if err.T == nil {
			return target.T == nil
		}
		if target.T != nil && types.Identical(err.T, target.T) && types.Comparable(err.T) {
			if m.decideVal(equals(err.T, err.V, target.V)) {
				return true
			}
		}
		var next Iface
		found := false
		for _, name := range []string{"Unwrap", "Cause"} {
			if f := m.lookupMethod(err.T, name); f != nil && f.Signature.Results().Len() == 1 {
				if _, isI := f.Signature.Results().At(0).Type().Underlying().(*types.Interface); isI {
					next = m.callSSA(fr, token.NoPos, f, []Val{err.V}, nil).(Iface)
					found = true
					break
				}
			}
		}
		if !found {
			return false
		}
		err = next
	}
	return false
}

// parseFloatSym models acceptance of strconv.ParseFloat on symbolic text for the alphabet the FIX float
// reader lets through afterwards; the value is an abstract float (opaque).
func (m *Machine) parseFloatSym(fr *frame, b []Val) Val {
	// Grammar accepted by strconv.ParseFloat restricted to decimal notation without exponent/underscore/inf/nan:
	//   [+-]? ( digits [. digits?] | . digits )
	// Texts containing any other character are classified by forking on "every byte is in [0-9.+-]" first.
	bad := func() Val { return Tuple{float64(0), m.errVal(fr, "strconv.ParseFloat: invalid syntax")} }
	for _, x := range b {
		t := byteTerm(x)
		isDig := mkAnd(mkCmp("le", mkConst('0', 8, false), t), mkCmp("le", t, mkConst('9', 8, false)))
		in := isDig
		for _, c := range ".-+eE " {
			in = mkOr(in, mkCmp("eq", t, mkConst(int64(c), 8, false)))
		}
		if !m.decide(in) {
			inconclusive("strconv.ParseFloat model: byte outside the modelled alphabet [0-9.+-eE space]")
		}
	}
	i := 0
	neg, hasDot, hasExp := false, false, false
	is := func(k int, c byte) bool { return m.decide(mkCmp("eq", byteTerm(b[k]), mkConst(int64(c), 8, false))) }
	isDigit := func(k int) bool {
		t := byteTerm(b[k])
		return m.decide(mkAnd(mkCmp("le", mkConst('0', 8, false), t), mkCmp("le", t, mkConst('9', 8, false))))
	}
	if len(b) == 0 {
		return bad()
	}
	if is(0, '+') {
		i = 1
	} else if is(0, '-') {
		i, neg = 1, true
	}
	nd := 0
	intFrom := i
	for i < len(b) && isDigit(i) {
		i++
		nd++
	}
	intTo := i
	if i < len(b) && is(i, '.') {
		hasDot = true
		i++
		for i < len(b) && isDigit(i) {
			i++
			nd++
		}
	}
	if nd == 0 {
		return bad()
	}
	if i < len(b) && (is(i, 'e') || is(i, 'E')) {
		hasExp = true
		i++
		if i >= len(b) {
			return bad()
		}
		if is(i, '+') || is(i, '-') {
			i++
		}
		if i >= len(b) || !isDigit(i) {
			return bad()
		}
		for i < len(b) && isDigit(i) {
			i++
		}
	}
	if i != len(b) {
		return bad()
	}
	if !hasDot && !hasExp && intTo-intFrom <= 18 {
		// a whole number: the value is the conversion of its integer (symfloat.go)
		return Tuple{m.sfFromDigits(b[intFrom:intTo], neg), Iface{}}
	}
	return Tuple{&SymFloat{NonNeg: !neg}, Iface{}}
}

// fscanf models fmt.Fscanf for formats made of %d verbs, literal separators and a trailing newline
// (the index line format "%d,%d,%d\n" of the file store). Bytes are pulled one at a time through the
// reader's Read method, as fmt does for a reader without ReadRune.
func (m *Machine) fscanf(fr *frame, r Iface, format string, ptrs []Val) Val {
	rf := m.lookupMethod(r.T, "Read")
	if rf == nil {
		inconclusive("Fscanf: reader without Read method")
	}
	eof := false
	var pending Val // one byte of lookahead within this call
	readByte := func() (Val, bool) {
		if pending != nil {
			b := pending
			pending = nil
			return b, true
		}
		if eof {
			return nil, false
		}
		buf := make(Slice, 1)
		buf[0] = int64(0)
		res := m.callSSA(fr, token.NoPos, rf, []Val{r.V, buf}, nil).(Tuple)
		if n, _ := res[0].(int64); n == 1 {
			return buf[0], true
		}
		eof = true
		return nil, false
	}
	errV := func(msg string) Val { return m.errVal(fr, msg) }
	ioEOF := *m.global(m.ex.pkgGlobal("io", "EOF"))
	ioUnexp := *m.global(m.ex.pkgGlobal("io", "ErrUnexpectedEOF"))
	isB := func(b Val, c byte) bool { return m.decide(mkCmp("eq", byteTerm(b), mkConst(int64(c), 8, false))) }
	isDigit := func(b Val) bool {
		t := byteTerm(b)
		return m.decide(mkAnd(mkCmp("le", mkConst('0', 8, false), t), mkCmp("le", t, mkConst('9', 8, false))))
	}
	count := int64(0)
	argi := 0
	first := true
	_ = first
	for i := 0; i < len(format); i++ {
		c := format[i]
		if c == '%' && i+1 < len(format) && format[i+1] == 'd' {
			i++
			// skip leading blanks (not newlines)
			b, ok := readByte()
			for ok && (isB(b, ' ') || isB(b, '\t')) {
				b, ok = readByte()
			}
			if !ok {
				// input exhausted where a verb starts: fmt reports io.EOF (validated against the real fmt)
				return Tuple{count, ioEOF}
			}
			first = false
			neg := false
			if isB(b, '-') {
				neg = true
				b, ok = readByte()
			} else if isB(b, '+') {
				b, ok = readByte()
			}
			if !ok {
				return Tuple{count, ioUnexp}
			}
			if !isDigit(b) {
				return Tuple{count, errV("expected integer")}
			}
			acc := mkConst(0, 64, true)
			nd := 0
			for ok && isDigit(b) {
				acc = mkArith("add", mkArith("mul", acc, mkConst(10, 64, true)), mkArith("sub", mkConv(byteTerm(b), 64, true), mkConst('0', 64, true)))
				nd++
				if nd > 18 {
					inconclusive("Fscanf model: more than 18 digits")
				}
				b, ok = readByte()
			}
			if ok {
				pending = b
			}
			if neg {
				acc = mkArith("sub", mkConst(0, 64, true), acc)
			}
			p := ptrs[argi].(Iface).V.(*Val)
			*p = fromTerm(acc)
			argi++
			count++
			continue
		}
		if c == '\n' {
			b, ok := readByte()
			if !ok {
				continue // newline in the format matches end of input
			}
			if isB(b, '\r') {
				b, ok = readByte()
				if !ok {
					continue
				}
			}
			if !isB(b, '\n') {
				return Tuple{count, errV("newline in format does not match input")}
			}
			continue
		}
		b, ok := readByte()
		if !ok {
			return Tuple{count, ioUnexp}
		}
		first = false
		if !isB(b, c) {
			return Tuple{count, errV("input does not match format")}
		}
	}
	return Tuple{count, Iface{}}
}

func (ex *Explorer) pkgGlobal(pkg, name string) *ssa.Global {
	for _, p := range ex.prog.AllPackages() {
		if p.Pkg.Path() == pkg {
			if g, ok := p.Members[name].(*ssa.Global); ok {
				return g
			}
		}
	}
	panic("global not found: " + pkg + "." + name)
}

// ---- regexp (native on concrete strings) and bufio.Scanner (line splitting over an interpreted reader)

type scannerVal struct {
	lines []string
	i     int
}

func init() {
	stubs["regexp.MustCompile"] = func(m *Machine, fr *frame, fn *ssa.Function, a []Val) Val {
		return regexp.MustCompile(cStr(m, a[0], "regexp.MustCompile"))
	}
	stubs["(*regexp.Regexp).MatchString"] = func(m *Machine, fr *frame, fn *ssa.Function, a []Val) Val {
		return a[0].(*regexp.Regexp).MatchString(cStr(m, a[1], "MatchString"))
	}
	stubs["(*regexp.Regexp).FindStringSubmatch"] = func(m *Machine, fr *frame, fn *ssa.Function, a []Val) Val {
		r := a[0].(*regexp.Regexp).FindStringSubmatch(cStr(m, a[1], "FindStringSubmatch"))
		if r == nil {
			return Slice(nil)
		}
		return strSliceVal(r)
	}
	stubs["bufio.NewScanner"] = func(m *Machine, fr *frame, fn *ssa.Function, a []Val) Val {
		r := a[0].(Iface)
		rf := m.lookupMethod(r.T, "Read")
		if rf == nil {
			inconclusive("bufio.NewScanner: reader without Read")
		}
		var data []byte
		for k := 0; k < 64; k++ {
			buf := make(Slice, 256)
			for i := range buf {
				buf[i] = int64(0)
			}
			res := m.callSSA(fr, token.NoPos, rf, []Val{r.V, buf}, nil).(Tuple)
			n := int(cInt(m, res[0], "Read result"))
			b, ok := cBytes(m, buf[:n], "scanner input")
			if !ok {
				inconclusive("bufio.Scanner over symbolic bytes")
			}
			data = append(data, b...)
			if e, _ := res[1].(Iface); e.T != nil || n == 0 {
				break
			}
		}
		sc := bufio.NewScanner(bytes.NewReader(data))
		sv := &scannerVal{}
		for sc.Scan() {
			sv.lines = append(sv.lines, sc.Text())
		}
		return sv
	}
	stubs["(*bufio.Scanner).Scan"] = func(m *Machine, fr *frame, fn *ssa.Function, a []Val) Val {
		sv := a[0].(*scannerVal)
		if sv.i < len(sv.lines) {
			sv.i++
			return true
		}
		return false
	}
	stubs["(*bufio.Scanner).Text"] = func(m *Machine, fr *frame, fn *ssa.Function, a []Val) Val {
		sv := a[0].(*scannerVal)
		if sv.i == 0 || sv.i > len(sv.lines) {
			return ""
		}
		return sv.lines[sv.i-1]
	}
	stubs["(*bufio.Scanner).Err"] = func(m *Machine, fr *frame, fn *ssa.Function, a []Val) Val { return Iface{} }
}
