package main

import (
	"sync"
	"fmt"
	"time"

	"golang.org/x/tools/go/ssa"
)

// Concrete time model: time.Time values are native (TimeVal); time.Now() is a fixed base instant that
// advances one millisecond per call. *SymTime (abstract calendar, symtime.go) handles the symbolic schedules.

var baseNow = time.Date(2024, time.January, 10, 12, 0, 0, 0, time.UTC)

type timerRec struct {
	Kind string
	D    int64
}

func tval(m *Machine, v Val, what string) time.Time {
	switch t := v.(type) {
	case TimeVal:
		return t.T
	case *SymTime:
		inconclusive("symbolic time passed to %s at %s", what, m.posStr(m.curFrame))
	}
	panic(fmt.Sprintf("tval: %T in %s", v, what))
}

var (
	locMu    sync.Mutex
	locCache = map[string]*time.Location{}
)

func locVal(v Val) *time.Location {
	l, _ := v.(*time.Location)
	return l
}

func registerTimeStubs() {
	stubs["time.Now"] = func(m *Machine, fr *frame, fn *ssa.Function, a []Val) Val {
		m.nowSeq++
		return TimeVal{baseNow.Add(time.Duration(m.nowSeq) * time.Millisecond)}
	}
	stubs["time.Since"] = func(m *Machine, fr *frame, fn *ssa.Function, a []Val) Val {
		m.nowSeq++
		return int64(baseNow.Add(time.Duration(m.nowSeq) * time.Millisecond).Sub(tval(m, a[0], "Since")))
	}
	stubs["time.Until"] = func(m *Machine, fr *frame, fn *ssa.Function, a []Val) Val {
		m.nowSeq++
		return int64(tval(m, a[0], "Until").Sub(baseNow.Add(time.Duration(m.nowSeq) * time.Millisecond)))
	}
	stubs["time.Date"] = func(m *Machine, fr *frame, fn *ssa.Function, a []Val) Val {
		if st, ok := symDate(m, a); ok {
			return st
		}
		c := func(i int) int { return int(cInt(m, a[i], "time.Date")) }
		loc := locVal(a[7])
		if loc == nil {
			panic(&goPanic{msg: "time: missing Location in call to Date", pos: m.posStr(fr)})
		}
		return TimeVal{time.Date(c(0), time.Month(c(1)), c(2), c(3), c(4), c(5), c(6), loc)}
	}
	stubs["time.Parse"] = func(m *Machine, fr *frame, fn *ssa.Function, a []Val) Val {
		layout := cStr(m, a[0], "time.Parse layout")
		s, ok := isConcreteStr(a[1])
		if !ok {
			inconclusive("time.Parse of symbolic text at %s", m.posStr(fr))
		}
		t, err := time.Parse(layout, s)
		if err != nil {
			return Tuple{TimeVal{}, m.errVal(fr, err.Error())}
		}
		return Tuple{TimeVal{t}, Iface{}}
	}
	stubs["time.ParseInLocation"] = func(m *Machine, fr *frame, fn *ssa.Function, a []Val) Val {
		t, err := time.ParseInLocation(cStr(m, a[0], "layout"), cStr(m, a[1], "ParseInLocation"), locVal(a[2]))
		if err != nil {
			return Tuple{TimeVal{}, m.errVal(fr, err.Error())}
		}
		return Tuple{TimeVal{t}, Iface{}}
	}
	stubs["time.ParseDuration"] = func(m *Machine, fr *frame, fn *ssa.Function, a []Val) Val {
		d, err := time.ParseDuration(cStr(m, a[0], "ParseDuration"))
		if err != nil {
			return Tuple{int64(0), m.errVal(fr, err.Error())}
		}
		return Tuple{int64(d), Iface{}}
	}
	stubs["time.FixedZone"] = func(m *Machine, fr *frame, fn *ssa.Function, a []Val) Val {
		return time.FixedZone(cStr(m, a[0], "FixedZone"), int(cInt(m, a[1], "FixedZone")))
	}
	stubs["time.LoadLocation"] = func(m *Machine, fr *frame, fn *ssa.Function, a []Val) Val {
		name := cStr(m, a[0], "LoadLocation")
		switch name {
		case "", "UTC":
			return Tuple{time.UTC, Iface{}}
		case "Local":
			return Tuple{time.UTC, Iface{}}
		}
		// a real tz-database zone: its offset periods around the abstract epoch are read from the Location itself
		// (symtime.go zonePeriods); one Location per name so that values compare by pointer as natively
		locMu.Lock()
		defer locMu.Unlock()
		if l, ok := locCache["tz:"+name]; ok {
			return Tuple{l, Iface{}}
		}
		l, err := time.LoadLocation(name)
		if err != nil {
			return Tuple{(*time.Location)(nil), m.errVal(fr, err.Error())}
		}
		locCache["tz:"+name] = l
		return Tuple{l, Iface{}}
	}
	stubs["time.LoadLocationFromTZData"] = func(m *Machine, fr *frame, fn *ssa.Function, a []Val) Val {
		name := cStr(m, a[0], "LoadLocationFromTZData")
		var data []byte
		for _, x := range a[1].(Slice) {
			c, ok := x.(int64)
			if !ok {
				inconclusive("LoadLocationFromTZData with symbolic data")
			}
			data = append(data, byte(c))
		}
		key := "data:" + name + ":" + string(data)
		locMu.Lock()
		defer locMu.Unlock()
		if l, ok := locCache[key]; ok {
			return Tuple{l, Iface{}}
		}
		l, err := time.LoadLocationFromTZData(name, data)
		if err != nil {
			return Tuple{(*time.Location)(nil), m.errVal(fr, err.Error())}
		}
		locCache[key] = l
		return Tuple{l, Iface{}}
	}
	stubs["(*time.Location).String"] = func(m *Machine, fr *frame, fn *ssa.Function, a []Val) Val {
		return locVal(a[0]).String()
	}
	stubs["time.AfterFunc"] = func(m *Machine, fr *frame, fn *ssa.Function, a []Val) Val {
		m.timers = append(m.timers, timerRec{Kind: "AfterFunc", D: cInt(m, a[0], "AfterFunc")})
		p := new(Val)
		*p = Struct{int64(0)}
		return p
	}
	stubs["time.NewTimer"] = stubs["time.AfterFunc"]
	stubs["(*time.Timer).Reset"] = func(m *Machine, fr *frame, fn *ssa.Function, a []Val) Val {
		if p := a[0].(*Val); p == nil {
			m.rtPanic(fr, "nil pointer dereference (Timer.Reset)")
		}
		m.timers = append(m.timers, timerRec{Kind: "Timer.Reset", D: cInt(m, a[1], "Timer.Reset")})
		return true
	}
	stubs["(*time.Timer).Stop"] = func(m *Machine, fr *frame, fn *ssa.Function, a []Val) Val {
		if p := a[0].(*Val); p == nil {
			m.rtPanic(fr, "nil pointer dereference (Timer.Stop)")
		}
		return true
	}
	stubs["time.Sleep"] = func(m *Machine, fr *frame, fn *ssa.Function, a []Val) Val { return nil }

	// Duration
	stubs["(time.Duration).Seconds"] = func(m *Machine, fr *frame, fn *ssa.Function, a []Val) Val {
		return time.Duration(m.concretize(a[0])).Seconds()
	}
	stubs["(time.Duration).String"] = func(m *Machine, fr *frame, fn *ssa.Function, a []Val) Val {
		return time.Duration(cInt(m, a[0], "Duration.String")).String()
	}
	stubs["(time.Duration).Milliseconds"] = func(m *Machine, fr *frame, fn *ssa.Function, a []Val) Val {
		return time.Duration(cInt(m, a[0], "Duration.Milliseconds")).Milliseconds()
	}
	stubs["(time.Duration).Nanoseconds"] = func(m *Machine, fr *frame, fn *ssa.Function, a []Val) Val { return a[0] }
	stubs["(time.Weekday).String"] = func(m *Machine, fr *frame, fn *ssa.Function, a []Val) Val {
		return time.Weekday(cInt(m, a[0], "Weekday.String")).String()
	}
	stubs["(time.Month).String"] = func(m *Machine, fr *frame, fn *ssa.Function, a []Val) Val {
		return time.Month(cInt(m, a[0], "Month.String")).String()
	}

	// Time methods (value receiver)
	tm := func(name string, f func(m *Machine, fr *frame, t time.Time, a []Val) Val) {
		stubs["(time.Time)."+name] = func(m *Machine, fr *frame, fn *ssa.Function, a []Val) Val {
			if st, ok := a[0].(*SymTime); ok {
				return symTimeMethod(m, fr, name, st, a[1:])
			}
			for _, x := range a[1:] {
				if _, ok := x.(*SymTime); ok {
					return symTimeMethod(m, fr, name, toSymTime(m, a[0]), a[1:])
				}
			}
			return f(m, fr, tval(m, a[0], name), a[1:])
		}
	}
	tm("UTC", func(m *Machine, fr *frame, t time.Time, a []Val) Val { return TimeVal{t.UTC()} })
	tm("Local", func(m *Machine, fr *frame, t time.Time, a []Val) Val { return TimeVal{t.UTC()} })
	tm("In", func(m *Machine, fr *frame, t time.Time, a []Val) Val {
		l := locVal(a[0])
		if l == nil {
			panic(&goPanic{msg: "time: missing Location in call to Time.In", pos: m.posStr(fr)})
		}
		return TimeVal{t.In(l)}
	})
	tm("Location", func(m *Machine, fr *frame, t time.Time, a []Val) Val { return t.Location() })
	tm("Add", func(m *Machine, fr *frame, t time.Time, a []Val) Val {
		return TimeVal{t.Add(time.Duration(cInt(m, a[0], "Time.Add")))}
	})
	tm("AddDate", func(m *Machine, fr *frame, t time.Time, a []Val) Val {
		return TimeVal{t.AddDate(int(cInt(m, a[0], "AddDate")), int(cInt(m, a[1], "AddDate")), int(cInt(m, a[2], "AddDate")))}
	})
	tm("Sub", func(m *Machine, fr *frame, t time.Time, a []Val) Val { return int64(t.Sub(tval(m, a[0], "Sub"))) })
	tm("Before", func(m *Machine, fr *frame, t time.Time, a []Val) Val { return t.Before(tval(m, a[0], "Before")) })
	tm("After", func(m *Machine, fr *frame, t time.Time, a []Val) Val { return t.After(tval(m, a[0], "After")) })
	tm("Equal", func(m *Machine, fr *frame, t time.Time, a []Val) Val { return t.Equal(tval(m, a[0], "Equal")) })
	tm("Compare", func(m *Machine, fr *frame, t time.Time, a []Val) Val { return int64(t.Compare(tval(m, a[0], "Compare"))) })
	tm("IsZero", func(m *Machine, fr *frame, t time.Time, a []Val) Val { return t.IsZero() })
	tm("Unix", func(m *Machine, fr *frame, t time.Time, a []Val) Val { return t.Unix() })
	tm("UnixNano", func(m *Machine, fr *frame, t time.Time, a []Val) Val { return t.UnixNano() })
	tm("Year", func(m *Machine, fr *frame, t time.Time, a []Val) Val { return int64(t.Year()) })
	tm("Month", func(m *Machine, fr *frame, t time.Time, a []Val) Val { return int64(t.Month()) })
	tm("Day", func(m *Machine, fr *frame, t time.Time, a []Val) Val { return int64(t.Day()) })
	tm("Hour", func(m *Machine, fr *frame, t time.Time, a []Val) Val { return int64(t.Hour()) })
	tm("Minute", func(m *Machine, fr *frame, t time.Time, a []Val) Val { return int64(t.Minute()) })
	tm("Second", func(m *Machine, fr *frame, t time.Time, a []Val) Val { return int64(t.Second()) })
	tm("Nanosecond", func(m *Machine, fr *frame, t time.Time, a []Val) Val { return int64(t.Nanosecond()) })
	tm("Weekday", func(m *Machine, fr *frame, t time.Time, a []Val) Val { return int64(t.Weekday()) })
	tm("YearDay", func(m *Machine, fr *frame, t time.Time, a []Val) Val { return int64(t.YearDay()) })
	tm("Clock", func(m *Machine, fr *frame, t time.Time, a []Val) Val {
		h, mi, s := t.Clock()
		return Tuple{int64(h), int64(mi), int64(s)}
	})
	tm("Date", func(m *Machine, fr *frame, t time.Time, a []Val) Val {
		y, mo, d := t.Date()
		return Tuple{int64(y), int64(mo), int64(d)}
	})
	tm("Truncate", func(m *Machine, fr *frame, t time.Time, a []Val) Val {
		return TimeVal{t.Truncate(time.Duration(cInt(m, a[0], "Truncate")))}
	})
	tm("Format", func(m *Machine, fr *frame, t time.Time, a []Val) Val { return t.Format(cStr(m, a[0], "Format")) })
	tm("String", func(m *Machine, fr *frame, t time.Time, a []Val) Val { return t.String() })
	tm("MarshalText", func(m *Machine, fr *frame, t time.Time, a []Val) Val {
		b, err := t.MarshalText()
		if err != nil {
			return Tuple{Slice(nil), m.errVal(fr, err.Error())}
		}
		return Tuple{bytesVal(b), Iface{}}
	})
	stubs["(*time.Time).UnmarshalText"] = func(m *Machine, fr *frame, fn *ssa.Function, a []Val) Val {
		p := a[0].(*Val)
		b, ok := cBytes(m, a[1], "UnmarshalText")
		if !ok {
			inconclusive("UnmarshalText of symbolic bytes")
		}
		var t time.Time
		if err := t.UnmarshalText(b); err != nil {
			return m.errVal(fr, err.Error())
		}
		*p = TimeVal{t}
		return Iface{}
	}
}
