package main

import (
	"fmt"
	"go/token"

	"golang.org/x/tools/go/ssa"
)

// Logical threads (verifParallel): closures run one at a time, each in its own goroutine with a baton;
// the scheduler (the interpreter's main goroutine) picks the next runnable thread at every scheduling
// point - before each Lock/RLock and after each Unlock/RUnlock of the session mutexes (and when a thread ends) - and the pick is a decision explored
// like any other branch. Mutual exclusion follows the sync.Mutex / sync.RWMutex contract.

type thread struct {
	id      int
	resume  chan struct{}
	waitFor *Val // mutex this thread is blocked on (nil = runnable)
	waitRd  bool
	done    bool
}

type threadEvent struct {
	t     *thread
	kind  string // yield | done | panic
	panic any
}

type threadAbort struct{}

type lockState struct {
	writer  *thread
	wHeld   bool
	readers map[*thread]int
	nread   int
}

func (m *Machine) lockOf(p *Val) *lockState {
	if m.tlocks == nil {
		m.tlocks = map[*Val]*lockState{}
	}
	ls := m.tlocks[p]
	if ls == nil {
		ls = &lockState{readers: map[*thread]int{}}
		m.tlocks[p] = ls
	}
	return ls
}

func (ls *lockState) canLock(rd bool) bool {
	if rd {
		return !ls.wHeld
	}
	return !ls.wHeld && ls.nread == 0
}

// yield hands the baton back to the scheduler and waits to be resumed.
func (m *Machine) yield(t *thread) {
	m.events <- threadEvent{t: t, kind: "yield"}
	<-t.resume
	if m.aborting {
		panic(threadAbort{})
	}
	m.cur = t
}

// threadLock implements Lock/RLock for the current logical thread (or the single main thread).
func (m *Machine) threadLock(fr *frame, p *Val, rd bool) {
	ls := m.lockOf(p)
	t := m.cur
	if t == nil {
		// no logical threads: only self-deadlock can be detected
		if !ls.canLock(rd) {
			panic(&pathEnd{kind: "deadlock", msg: "lock of a mutex already held at " + m.posStr(fr)})
		}
	} else {
		m.yield(t) // scheduling point before the acquisition
		for !ls.canLock(rd) {
			if ls.wHeld && ls.writer == t || (!rd && ls.readers[t] > 0) {
				panic(&pathEnd{kind: "deadlock", msg: "thread re-locks a mutex it already holds at " + m.posStr(fr)})
			}
			t.waitFor, t.waitRd = p, rd
			m.yield(t)
		}
		t.waitFor = nil
	}
	if rd {
		ls.readers[t]++
		ls.nread++
	} else {
		ls.wHeld, ls.writer = true, t
	}
}

func (m *Machine) threadUnlock(fr *frame, p *Val, rd bool) {
	ls := m.lockOf(p)
	t := m.cur
	if rd {
		if ls.nread == 0 {
			panic(&goPanic{msg: "sync: RUnlock of unlocked RWMutex", pos: m.posStr(fr)})
		}
		ls.readers[t]--
		ls.nread--
	} else {
		if !ls.wHeld {
			panic(&goPanic{msg: "sync: unlock of unlocked mutex", pos: m.posStr(fr)})
		}
		ls.wHeld, ls.writer = false, nil
	}
	// a scheduling point after a release too: what a thread does between an Unlock and its next Lock (or its end) is
	// unprotected, and another thread may run right there. To keep the number of schedules manageable these
	// preemptions are bounded per path by the harness (verifPreemptAtRelease(n), default 0): once used up, a thread
	// runs on to its next Lock
	if t != nil && m.relPreempts < m.relLimit {
		m.relYield = t
		m.yield(t)
	}
}

// holds reports whether the current logical thread (or the main thread) holds the mutex.
func (m *Machine) holds(p *Val) bool {
	ls := m.lockOf(p)
	return (ls.wHeld && ls.writer == m.cur) || ls.readers[m.cur] > 0
}

// choose picks one of n alternatives as an explored decision.
func (m *Machine) choose(n int) int {
	if n <= 1 {
		return 0
	}
	if m.pos < len(m.prefix) {
		d := m.prefix[m.pos]
		m.pos++
		if d.K != 's' {
			panic("prefix mismatch: expected schedule decision")
		}
		return int(d.V)
	}
	m.res.Transitions++
	for k := 1; k < n; k++ {
		alt := append(append([]Decision{}, m.prefix...), Decision{K: 's', V: int64(k)})
		m.newWork = append(m.newWork, alt)
	}
	m.prefix = append(m.prefix, Decision{K: 's', V: 0})
	m.pos++
	return 0
}

// chooseSched picks the next thread and records the pick in the replay feed (item "sched").
func (m *Machine) chooseSched(n int) int {
	if n <= 1 {
		return 0
	}
	k := m.choose(n)
	t := m.fresh("sched", "int", 64, true)
	m.assertPC(mkCmp("eq", t, mkConst(int64(k), 64, true)))
	return k
}

func (m *Machine) runParallel(fr *frame, fns []Val) {
	if m.cur != nil {
		panic(&pathEnd{kind: "inconclusive", msg: "nested verifParallel"})
	}
	m.events = make(chan threadEvent)
	var ts []*thread
	for i, f := range fns {
		t := &thread{id: i, resume: make(chan struct{})}
		ts = append(ts, t)
		go func(t *thread, f Val) {
			defer func() {
				r := recover()
				if _, ok := r.(threadAbort); ok {
					m.events <- threadEvent{t: t, kind: "aborted"}
					return
				}
				if r != nil {
					m.events <- threadEvent{t: t, kind: "panic", panic: r}
					return
				}
				m.events <- threadEvent{t: t, kind: "done"}
			}()
			<-t.resume
			if m.aborting {
				panic(threadAbort{})
			}
			m.cur = t
			m.call(nil, token.NoPos, f, nil)
		}(t, f)
	}
	abort := func(cause any) {
		m.aborting = true
		for _, t := range ts {
			if !t.done {
				t.resume <- struct{}{}
				ev := <-m.events
				_ = ev
				t.done = true
			}
		}
		m.aborting = false
		m.cur = nil
		panic(cause)
	}
	for {
		var runnable []*thread
		alive := 0
		for _, t := range ts {
			if t.done {
				continue
			}
			alive++
			if t.waitFor == nil || m.lockOf(t.waitFor).canLock(t.waitRd) {
				runnable = append(runnable, t)
			}
		}
		if alive == 0 {
			break
		}
		if len(runnable) == 0 {
			abort(&pathEnd{kind: "deadlock", msg: fmt.Sprintf("all %d logical threads blocked at %s", alive, m.posStr(fr))})
		}
		t := runnable[m.chooseSched(len(runnable))]
		if m.relYield != nil && m.relYield != t {
			m.relPreempts++ // another thread was let in right after a release
		}
		m.relYield = nil
		m.sched = append(m.sched, t.id)
		t.resume <- struct{}{}
		ev := <-m.events
		m.cur = nil
		switch ev.kind {
		case "done":
			ev.t.done = true
		case "panic":
			ev.t.done = true
			abort(ev.panic)
		}
	}
	m.cur = nil
}

func init() {
	apiStubs["verifParallel"] = func(m *Machine, fr *frame, a []Val) Val {
		var fns []Val
		for _, x := range variadic(a[0]) {
			fns = append(fns, x)
		}
		m.runParallel(fr, fns)
		return nil
	}
	apiStubs["verifLock"] = func(m *Machine, fr *frame, a []Val) Val {
		m.threadLock(fr, a[0].(*Val), a[1].(bool))
		return nil
	}
	apiStubs["verifUnlock"] = func(m *Machine, fr *frame, a []Val) Val {
		m.threadUnlock(fr, a[0].(*Val), a[1].(bool))
		return nil
	}
	apiStubs["verifPreemptAtRelease"] = func(m *Machine, fr *frame, a []Val) Val {
		m.relLimit = int(a[0].(int64))
		return nil
	}
	apiStubs["verifHeld"] = func(m *Machine, fr *frame, a []Val) Val {
		p, _ := a[0].(*Val)
		if p == nil {
			return false
		}
		return m.holds(p)
	}
}

var _ = ssa.Function{}
