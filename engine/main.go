package main

import (
	"bufio"
	"bytes"
	"context"
	"encoding/json"
	"flag"
	"fmt"
	"os"
	"os/exec"
	"path/filepath"
	"regexp"
	"sort"
	"strconv"
	"strings"
	"time"
)

var (
	repoDir  = envOr("VERIF_REPO", "/repo")
	verifDir = envOr("VERIF_DIR", "/verif")
)

func envOr(k, d string) string {
	if v := os.Getenv(k); v != "" {
		return v
	}
	return d
}

type HarnessSpec struct {
	Dir      string `json:"dir"`
	Name     string `json:"name"`
	Mode     string `json:"mode"`               // bv | lia
	Tiers    string `json:"tiers,omitempty"`    // "" both | quick | thorough
	Unwind   int    `json:"unwind,omitempty"`   // per-block visit bound
	MaxSteps int    `json:"maxsteps,omitempty"` // per-path instruction bound
	MaxPaths [2]int `json:"maxpaths,omitempty"` // quick, thorough (0 = unlimited)
	MapRev   bool   `json:"maprev,omitempty"`   // also run with reversed map iteration order (thorough)
	HangChk  bool   `json:"hangcheck,omitempty"`
	Bounds   string `json:"bounds,omitempty"` // human-readable bound statement (quick → thorough)
}

type CheckSpec struct {
	Harnesses   []HarnessSpec `json:"harnesses"`
	Assumptions []string      `json:"assumptions"`
	Outside     []string      `json:"outside"`
}

type KnownFinding struct {
	Property string `json:"property"`
	Harness  string `json:"harness"`
	Kind     string `json:"kind"`
	ID       string `json:"id"`
	Case     string `json:"case"`
	Summary  string `json:"summary"`
	Fixed    string `json:"fixed,omitempty"`
}

func loadKnown() []KnownFinding {
	var out []KnownFinding
	f, err := os.Open(filepath.Join(verifDir, "known_findings.jsonl"))
	if err != nil {
		return nil
	}
	defer f.Close()
	sc := bufio.NewScanner(f)
	sc.Buffer(make([]byte, 1<<20), 1<<20)
	for sc.Scan() {
		line := strings.TrimSpace(sc.Text())
		if line == "" || strings.HasPrefix(line, "#") || strings.HasPrefix(line, "fixed:") {
			continue
		}
		var k KnownFinding
		if json.Unmarshal([]byte(line), &k) == nil && k.Fixed == "" {
			out = append(out, k)
		}
	}
	return out
}

func main() {
	if len(os.Args) < 2 {
		fmt.Fprintln(os.Stderr, "usage: gosym check <property> [--tier quick|thorough] | run ... | replay <file> | selftest")
		os.Exit(2)
	}
	switch os.Args[1] {
	case "check":
		os.Exit(cmdCheck(os.Args[2:]))
	case "run":
		os.Exit(cmdRun(os.Args[2:]))
	case "replay":
		os.Exit(cmdReplay(os.Args[2:]))
	default:
		fmt.Fprintln(os.Stderr, "unknown command", os.Args[1])
		os.Exit(2)
	}
}

func parseMode(s string) smtMode {
	if s == "lia" {
		return modeLIA
	}
	return modeBV
}

type harnessResult struct {
	Spec  HarnessSpec
	Ex    *Explorer
	Wall  float64
	Error string
}

func defaultCfg(spec HarnessSpec, tier int, deadline time.Time, workers int, verbose bool) Config {
	cfg := Config{Mode: parseMode(spec.Mode), Unwind: 2000, MaxSteps: 3_000_000, Workers: workers, Tier: tier, QueryMs: 25000, Samples: 40, Deadline: deadline, Verbose: verbose}
	if tier == 1 {
		cfg.QueryMs = 60000
		cfg.Samples = 200
	}
	if spec.Unwind > 0 {
		cfg.Unwind = spec.Unwind
	}
	if spec.MaxSteps > 0 {
		cfg.MaxSteps = spec.MaxSteps
	}
	if v, err := strconv.Atoi(os.Getenv("GOSYM_QUERY_MS")); err == nil && v > 0 {
		cfg.QueryMs = v
	}
	cfg.MaxPaths = spec.MaxPaths[tier]
	cfg.HangCheck = spec.HangChk
	return cfg
}

func runHarnesses(specs []HarnessSpec, tier int, deadline time.Time, workers int, verbose bool) ([]*harnessResult, string, error) {
	dirset := map[string]bool{}
	for _, s := range specs {
		dirset[s.Dir] = true
	}
	var dirs []string
	for d := range dirset {
		dirs = append(dirs, d)
	}
	sort.Strings(dirs)
	genDir := filepath.Join(verifDir, "out", "gen")
	ov, err := overlayFor(repoDir, verifDir, dirs, genDir)
	if err != nil {
		return nil, "", err
	}
	t0 := time.Now()
	ld, err := loadProgram(repoDir, dirs, ov)
	if err != nil {
		return nil, "", err
	}
	loadInfo := fmt.Sprintf("loaded %v from %s in %.1fs", dirs, repoDir, time.Since(t0).Seconds())
	var results []*harnessResult
	deadline0 := deadline
	for i, spec := range specs {
		// the wall-clock budget of the property is shared: a harness may use up to twice its even share of what is
		// left (the last one all of it), so that one expensive harness cannot starve the ones after it
		if left := len(specs) - i; left > 1 {
			if hd := time.Now().Add(2 * time.Until(deadline0) / time.Duration(left)); hd.Before(deadline0) {
				deadline = hd
			} else {
				deadline = deadline0
			}
		} else {
			deadline = deadline0
		}
		pkg := ld.pkgs[spec.Dir]
		fn := pkg.Func("VerifHarness_" + spec.Name)
		hr := &harnessResult{Spec: spec}
		results = append(results, hr)
		if fn == nil {
			hr.Error = "harness function VerifHarness_" + spec.Name + " not found"
			continue
		}
		cfg := defaultCfg(spec, tier, deadline, workers, verbose)
		ex := NewExplorer(ld.prog, modulePath, fn, cfg)
		ex.initPkgs = append(ex.initPkgs, pkg)
		h0 := time.Now()
		ex.Run()
		if spec.MapRev && tier == 1 && !ex.stopped {
			cfg2 := cfg
			cfg2.MapReverse = true
			ex2 := NewExplorer(ld.prog, modulePath, fn, cfg2)
			ex2.initPkgs = ex.initPkgs
			ex2.Run()
			mergeExplorer(ex, ex2)
		}
		hr.Ex = ex
		hr.Wall = time.Since(h0).Seconds()
	}
	return results, loadInfo, nil
}

func mergeExplorer(a, b *Explorer) {
	a.Paths += b.Paths
	a.Transitions += b.Transitions
	a.Queries += b.Queries
	a.SolverTime += b.SolverTime
	a.SolverErrors += b.SolverErrors
	a.UnknownBr += b.UnknownBr
	for k, v := range b.Ends {
		a.Ends[k] += v
	}
	for k, v := range b.Inconclusive {
		a.Inconclusive[k+" [reversed map order]"] += v
	}
	for k, v := range b.Violations {
		if _, ok := a.Violations[k]; !ok {
			v.Msg += " [reversed map iteration order]"
			a.Violations[k] = v
		}
	}
	for k, v := range b.Asserts {
		t := a.Asserts[k]
		if t == nil {
			t = &assertStat{}
			a.Asserts[k] = t
		}
		t.Reached += v.Reached
		t.Discharged += v.Discharged
		t.Failed += v.Failed
		t.Unknown += v.Unknown
	}
	for k := range b.Funcs {
		a.Funcs[k] = true
	}
	for k := range b.Stubs {
		a.Stubs[k] = true
	}
	if b.stopped {
		a.stopped, a.stopWhy = true, b.stopWhy
	}
}

// ------------------------------------------------------------------ native replay

type replayJob struct {
	Harness string     `json:"harness"`
	Tier    int        `json:"tier"`
	Feed    []FeedItem `json:"feed"`
}

type replayResult struct {
	Verdict string
	Obs     []string
}

var resultRe = regexp.MustCompile(`^VERIF-REPLAY-(START|RESULT|OBS) (\d+) ?(.*)$`)

func nativeReplay(dir string, jobs []replayJob, tag string) []replayResult {
	res := make([]replayResult, len(jobs))
	if len(jobs) == 0 {
		return res
	}
	work := filepath.Join(verifDir, "out", "replay", tag)
	os.MkdirAll(work, 0o755)
	genDir := filepath.Join(work, "gen")
	ov, err := overlayFor(repoDir, verifDir, []string{dir}, genDir)
	if err != nil {
		for i := range res {
			res[i].Verdict = "error=" + err.Error()
		}
		return res
	}
	testFile := filepath.Join(genDir, dir, "replay_test.go")
	os.WriteFile(testFile, []byte("//go:build verif\n\npackage "+pkgNameOf(dir)+"\n\nimport \"testing\"\n\nfunc TestVerifReplay(t *testing.T) { verifReplayMain() }\n"), 0o644)
	ov[filepath.Join(repoDir, harnessDirs[dir], "zz_verif_replay_test.go")] = testFile
	ovJSON, _ := json.Marshal(map[string]any{"Replace": ov})
	ovFile := filepath.Join(work, "overlay.json")
	os.WriteFile(ovFile, ovJSON, 0o644)
	jobsFile := filepath.Join(work, "jobs.json")
	jb, _ := json.Marshal(jobs)
	os.WriteFile(jobsFile, jb, 0o644)

	run := func(only int, timeout time.Duration) (string, map[int]bool) {
		ctx, cancel := context.WithTimeout(context.Background(), timeout)
		defer cancel()
		cmd := exec.CommandContext(ctx, "go", "test", "-tags", "verif", "-vet=off", "-count=1", "-overlay", ovFile, "-run", "TestVerifReplay$", "-v", "-timeout", fmt.Sprintf("%ds", int(timeout.Seconds())), pkgPathOf(dir))
		cmd.Dir = repoDir
		cmd.Env = append(goEnv(), "VERIF_REPLAY_JOBS="+jobsFile, "TZ=UTC")
		if only >= 0 {
			cmd.Env = append(cmd.Env, "VERIF_REPLAY_ONLY="+strconv.Itoa(only))
		}
		var out bytes.Buffer
		cmd.Stdout = &out
		cmd.Stderr = &out
		cmd.WaitDelay = 2 * time.Second
		cmd.Run()
		started := map[int]bool{}
		for _, line := range strings.Split(out.String(), "\n") {
			mm := resultRe.FindStringSubmatch(strings.TrimSpace(line))
			if mm == nil {
				continue
			}
			i, _ := strconv.Atoi(mm[2])
			if i < 0 || i >= len(res) {
				continue
			}
			switch mm[1] {
			case "START":
				started[i] = true
			case "RESULT":
				res[i].Verdict = mm[3]
			case "OBS":
				json.Unmarshal([]byte(mm[3]), &res[i].Obs)
			}
		}
		return out.String(), started
	}
	out, _ := run(-1, 10*time.Minute)
	missing := 0
	for i := range res {
		if res[i].Verdict == "" {
			missing++
		}
	}
	if missing == len(res) && !strings.Contains(out, "VERIF-REPLAY-START") {
		// build failure or similar
		msg := out
		if len(msg) > 2000 {
			msg = msg[:2000]
		}
		for i := range res {
			res[i].Verdict = "error=native run failed: " + strings.ReplaceAll(msg, "\n", " | ")
		}
		return res
	}
	for i := range res {
		if res[i].Verdict != "" {
			continue
		}
		o, started := run(i, 30*time.Second)
		if res[i].Verdict == "" {
			if started[i] {
				why := "hang-or-crash"
				if strings.Contains(o, "stack overflow") || strings.Contains(o, "goroutine stack exceeds") {
					why = "stack-overflow"
				} else if strings.Contains(o, "panic: test timed out") || strings.Contains(o, "signal: killed") {
					why = "hang"
				} else if idx := strings.Index(o, "fatal error:"); idx >= 0 {
					end := strings.IndexByte(o[idx:], '\n')
					if end < 0 {
						end = len(o) - idx
					}
					why = "crash " + o[idx:idx+end]
				}
				res[i].Verdict = "fail " + why
			} else {
				res[i].Verdict = "error=job did not start"
			}
		}
	}
	return res
}

func verdictMatches(v *Violation, verdict string) bool {
	switch v.Kind {
	case "assert":
		return verdict == "fail assert="+v.ID
	case "panic":
		return strings.HasPrefix(verdict, "fail panic=") || strings.HasPrefix(verdict, "fail crash") || strings.HasPrefix(verdict, "fail stack-overflow")
	case "hang":
		return strings.HasPrefix(verdict, "fail hang") || strings.HasPrefix(verdict, "fail stack-overflow")
	}
	return false
}

// ------------------------------------------------------------------ commands

func cmdRun(args []string) int {
	fs := flag.NewFlagSet("run", flag.ExitOnError)
	dir := fs.String("dir", "root", "harness dir")
	name := fs.String("harness", "", "harness name")
	mode := fs.String("mode", "bv", "bv|lia")
	tierS := fs.String("tier", "quick", "")
	workers := fs.Int("workers", 16, "")
	unwind := fs.Int("unwind", 0, "")
	maxpaths := fs.Int("maxpaths", 0, "")
	verbose := fs.Bool("v", false, "")
	doReplay := fs.Bool("replay", false, "replay violations natively")
	hang := fs.Bool("hangcheck", false, "report unwinding failures as hang candidates")
	fs.Parse(args)
	tier := 0
	if *tierS == "thorough" {
		tier = 1
	}
	spec := HarnessSpec{Dir: *dir, Name: *name, Mode: *mode, Unwind: *unwind, MaxPaths: [2]int{*maxpaths, *maxpaths}, HangChk: *hang}
	rs, info, err := runHarnesses([]HarnessSpec{spec}, tier, time.Time{}, *workers, *verbose)
	if err != nil {
		fmt.Println("LOAD ERROR:", err)
		return 0
	}
	fmt.Println(info)
	for _, r := range rs {
		printSummary(r)
		if *doReplay && r.Ex != nil {
			vs := r.Ex.sortedViolations()
			var jobs []replayJob
			for _, v := range vs {
				jobs = append(jobs, replayJob{Harness: v.Harness, Tier: tier, Feed: v.Feed})
			}
			for i, rr := range nativeReplay(r.Spec.Dir, jobs, "run") {
				fmt.Printf("  replay %s: %s (match=%v)\n", vs[i].Key(), rr.Verdict, verdictMatches(vs[i], rr.Verdict))
			}
		}
	}
	return 0
}

func printSummary(r *harnessResult) {
	if r.Error != "" {
		fmt.Printf("harness %s: ERROR %s\n", r.Spec.Name, r.Error)
		return
	}
	ex := r.Ex
	fmt.Printf("harness %s: paths=%d ends=%v transitions=%d queries=%d solver=%.1fs wall=%.1fs maxsteps=%d funcs=%d\n",
		r.Spec.Name, ex.Paths, ex.Ends, ex.Transitions, ex.Queries, ex.SolverTime.Seconds(), r.Wall, ex.MaxStepsSeen, len(ex.Funcs))
	if ex.stopped {
		fmt.Printf("  STOPPED: %s\n", ex.stopWhy)
	}
	var ids []string
	for id := range ex.Asserts {
		ids = append(ids, id)
	}
	sort.Strings(ids)
	for _, id := range ids {
		a := ex.Asserts[id]
		fmt.Printf("  assert %-40s reached=%d discharged=%d failed=%d unknown=%d\n", id, a.Reached, a.Discharged, a.Failed, a.Unknown)
	}
	var inc []string
	for k, n := range ex.Inconclusive {
		inc = append(inc, fmt.Sprintf("%s (x%d)", k, n))
	}
	sort.Strings(inc)
	for _, k := range inc {
		fmt.Printf("  INCONCLUSIVE %s\n", k)
	}
	for _, v := range ex.sortedViolations() {
		fmt.Printf("  CANDIDATE %s %s [%s] case=%q x%d feed=%s\n", v.Kind, v.ID, v.Msg, v.Case, v.Count, feedStr(v.Feed))
		if v.Stack != "" && ex.cfg.Verbose {
			fmt.Print(v.Stack)
		}
	}
}

func feedStr(f []FeedItem) string {
	var sb strings.Builder
	for i, it := range f {
		if i > 0 {
			sb.WriteByte(' ')
		}
		if i > 60 {
			sb.WriteString("...")
			break
		}
		fmt.Fprintf(&sb, "%s=%d", it.Name, it.V)
	}
	return sb.String()
}

func cmdReplay(args []string) int {
	if len(args) < 1 {
		fmt.Println("usage: gosym replay <file>")
		return 2
	}
	data, err := os.ReadFile(args[0])
	if err != nil {
		fmt.Println(err)
		return 2
	}
	var rf struct {
		Dir       string     `json:"dir"`
		Tier      int        `json:"tier"`
		Violation *Violation `json:"violation"`
	}
	if err := json.Unmarshal(data, &rf); err != nil {
		fmt.Println(err)
		return 2
	}
	rr := nativeReplay(rf.Dir, []replayJob{{Harness: rf.Violation.Harness, Tier: rf.Tier, Feed: rf.Violation.Feed}}, "manual")
	fmt.Printf("replay of %s: %s\n", rf.Violation.Key(), rr[0].Verdict)
	if verdictMatches(rf.Violation, rr[0].Verdict) {
		fmt.Println("REPRODUCED")
		return 1
	}
	fmt.Println("NOT REPRODUCED")
	return 0
}
