package main

import (
	"fmt"
	"go/token"
	"go/types"
	"os"
	"regexp"
	"runtime/debug"
	"sort"
	"strings"
	"sync"
	"time"

	"golang.org/x/tools/go/ssa"
)

type Config struct {
	Mode       smtMode
	Unwind     int
	MaxSteps   int
	MapReverse bool
	Workers    int
	MaxPaths   int
	QueryMs    int
	Tier       int // 0 quick, 1 thorough
	Deadline   time.Time
	Samples    int
	Verbose    bool
	HangCheck  bool
}

type FeedItem struct {
	Name string `json:"n"`
	V    int64  `json:"v"`
}

type Violation struct {
	Harness   string     `json:"harness"`
	Kind      string     `json:"kind"` // assert | panic | hang
	ID        string     `json:"id"`
	Msg       string     `json:"msg"`
	Case      string     `json:"case"`
	Feed      []FeedItem `json:"feed"`
	Decisions int        `json:"decisions"`
	Count     int        `json:"count"`
	Confirmed string     `json:"confirmed,omitempty"`
	Stack     string     `json:"stack,omitempty"`
}

func (v *Violation) Key() string { return v.Harness + "|" + v.Kind + "|" + v.ID + "|" + v.Case }

type Sample struct {
	Harness  string     `json:"harness"`
	Feed     []FeedItem `json:"feed"`
	Observes []string   `json:"observes"`
	Case     string     `json:"case,omitempty"`
	Steps    int        `json:"steps"`
}

type assertStat struct {
	Reached, Discharged, Failed, Unknown int
}

// PathResult is what one run contributes.
type PathResult struct {
	End         string
	Msg         string
	Transitions int
	funcs       map[*ssa.Function]bool
	stubs       map[string]bool
	violations  []*Violation
	asserts     map[string]*assertStat
	sample      *Sample
	unknownB    int
}

func (r *PathResult) noteFunc(f *ssa.Function) {
	if r != nil {
		r.funcs[f] = true
	}
}
func (r *PathResult) noteStub(n string) {
	if r != nil {
		r.stubs[n] = true
	}
}

type Explorer struct {
	cfg        Config
	prog       *ssa.Program
	modulePath string
	harness    *ssa.Function
	name       string
	initPkgs   []*ssa.Package

	mu       sync.Mutex
	cond     *sync.Cond
	work     [][]Decision
	active   int
	stopped  bool
	stopWhy  string
	shared   map[string]Val // process-wide immutable caches

	// aggregated
	Paths        int
	Ends         map[string]int
	Transitions  int
	Violations   map[string]*Violation
	Inconclusive map[string]int
	Asserts      map[string]*assertStat
	Funcs        map[string]bool
	Stubs        map[string]bool
	Samples      []*Sample
	Queries      int
	SolverTime   time.Duration
	SolverErrors int
	UnknownBr    int
	MaxStepsSeen int
	modCache     sync.Map
}

func (ex *Explorer) isModulePkg(p *ssa.Package) bool {
	if p == nil {
		return false
	}
	if v, ok := ex.modCache.Load(p); ok {
		return v.(bool)
	}
	path := p.Pkg.Path()
	r := path == ex.modulePath || strings.HasPrefix(path, ex.modulePath+"/")
	ex.modCache.Store(p, r)
	return r
}

func NewExplorer(prog *ssa.Program, modulePath string, h *ssa.Function, cfg Config) *Explorer {
	ex := &Explorer{cfg: cfg, prog: prog, modulePath: modulePath, harness: h, name: strings.TrimPrefix(h.Name(), "VerifHarness_"),
		Ends: map[string]int{}, Violations: map[string]*Violation{}, Inconclusive: map[string]int{}, Asserts: map[string]*assertStat{},
		Funcs: map[string]bool{}, Stubs: map[string]bool{}}
	ex.cond = sync.NewCond(&ex.mu)
	return ex
}

func (ex *Explorer) Run() {
	ex.work = [][]Decision{nil}
	var wg sync.WaitGroup
	if ex.cfg.Verbose {
		done := make(chan struct{})
		defer close(done)
		go func() {
			t0 := time.Now()
			for {
				select {
				case <-done:
					return
				case <-time.After(5 * time.Second):
					ex.mu.Lock()
					fmt.Fprintf(os.Stderr, "[%s %.0fs] paths=%d pending=%d active=%d ends=%v\n", ex.name, time.Since(t0).Seconds(), ex.Paths, len(ex.work), ex.active, ex.Ends)
					ex.mu.Unlock()
				}
			}
		}()
	}
	for i := 0; i < ex.cfg.Workers; i++ {
		wg.Add(1)
		go func() {
			defer wg.Done()
			ex.worker()
		}()
	}
	wg.Wait()
}

func (ex *Explorer) worker() {
	solver := NewSolver(ex.cfg.Mode, ex.cfg.QueryMs)
	defer func() {
		ex.mu.Lock()
		ex.Queries += solver.Queries
		ex.SolverTime += solver.Time
		ex.SolverErrors += solver.Errors
		ex.mu.Unlock()
		solver.Close()
	}()
	for {
		ex.mu.Lock()
		for len(ex.work) == 0 && ex.active > 0 && !ex.stopped {
			ex.cond.Wait()
		}
		if ex.stopped || (len(ex.work) == 0 && ex.active == 0) {
			ex.cond.Broadcast()
			ex.mu.Unlock()
			return
		}
		// depth-first: take the most recent prefix
		p := ex.work[len(ex.work)-1]
		ex.work = ex.work[:len(ex.work)-1]
		ex.active++
		ex.mu.Unlock()

		res, more, steps := ex.runPath(solver, p)

		ex.mu.Lock()
		ex.active--
		ex.Paths++
		ex.Ends[res.End]++
		ex.Transitions += res.Transitions
		ex.UnknownBr += res.unknownB
		if steps > ex.MaxStepsSeen {
			ex.MaxStepsSeen = steps
		}
		if res.End == "inconclusive" || res.End == "unwind" || res.End == "deadlock" || res.End == "engine-error" {
			ex.Inconclusive[res.End+": "+res.Msg]++
		}
		for f := range res.funcs {
			ex.Funcs[f.String()] = true
		}
		for s := range res.stubs {
			ex.Stubs[s] = true
		}
		for id, a := range res.asserts {
			t := ex.Asserts[id]
			if t == nil {
				t = &assertStat{}
				ex.Asserts[id] = t
			}
			t.Reached += a.Reached
			t.Discharged += a.Discharged
			t.Failed += a.Failed
			t.Unknown += a.Unknown
		}
		for _, v := range res.violations {
			if old, ok := ex.Violations[v.Key()]; ok {
				old.Count++
			} else {
				v.Count = 1
				ex.Violations[v.Key()] = v
			}
		}
		if res.sample != nil && len(ex.Samples) < ex.cfg.Samples {
			ex.Samples = append(ex.Samples, res.sample)
		}
		ex.work = append(ex.work, more...)
		if ex.cfg.MaxPaths > 0 && ex.Paths+len(ex.work) > ex.cfg.MaxPaths && !ex.stopped && len(ex.work) > 0 {
			ex.stopped = true
			ex.stopWhy = fmt.Sprintf("path budget %d exhausted with %d prefixes pending", ex.cfg.MaxPaths, len(ex.work))
		}
		if !ex.cfg.Deadline.IsZero() && time.Now().After(ex.cfg.Deadline) && !ex.stopped && len(ex.work) > 0 {
			ex.stopped = true
			ex.stopWhy = fmt.Sprintf("wall-clock budget exhausted with %d prefixes pending", len(ex.work))
		}
		ex.cond.Broadcast()
		ex.mu.Unlock()
	}
}

var nameSan = regexp.MustCompile(`[^A-Za-z0-9_]`)

func (ex *Explorer) runPath(solver *Solver, prefix []Decision) (res *PathResult, more [][]Decision, steps int) {
	solver.Reset()
	res = &PathResult{funcs: map[*ssa.Function]bool{}, stubs: map[string]bool{}, asserts: map[string]*assertStat{}}
	m := &Machine{ex: ex, prog: ex.prog, solver: solver, prefix: append([]Decision{}, prefix...), globals: map[*ssa.Global]*Val{},
		res: res, methods: map[types.Type]map[string]*ssa.Function{}, locks: map[*Val]int{}, stash: map[string]Val{}, facts: facts{}, memo: map[string]bool{}}
	defer func() {
		more = m.newWork
		steps = m.steps
		res.unknownB = m.unknownB
		if r := recover(); r != nil {
			switch e := r.(type) {
			case *pathEnd:
				res.End, res.Msg = e.kind, e.msg
				if e.kind == "unwind" && ex.cfg.HangCheck {
					// candidate hang / unbounded recursion: decided by native replay under a timeout
					id := "unbounded-loop"
					if strings.HasPrefix(e.msg, "recursion") {
						id = "unbounded-recursion"
					} else if strings.HasPrefix(e.msg, "step") {
						id = "step-limit"
					}
					m.reportViolation("hang", id, e.msg, nil)
				}
			case *goPanic:
				// uncaught panic of the interpreted program: an implicit obligation failed
				res.End = "panic"
				res.Msg = e.msg
				m.reportViolation("panic", panicID(e), e.msg+" at "+e.pos, nil)
			default:
				res.End = "engine-error"
				res.Msg = fmt.Sprintf("%v at %s", r, m.posStr(m.curFrame))
				if ex.cfg.Verbose {
					fmt.Fprintf(os.Stderr, "ENGINE ERROR %v\n%s\n%s\n", r, m.stack(m.curFrame), debug.Stack())
				}
			}
		}
	}()
	for _, p := range ex.initPkgs {
		if f := p.Func("init"); f != nil {
			m.callSSA(nil, token.NoPos, f, nil, nil)
		}
	}
	m.callSSA(nil, token.NoPos, ex.harness, nil, nil)
	res.End = "complete"
	if solver.Lost {
		res.End, res.Msg = "inconclusive", "solver gave no answer long after its timeout and was restarted; this path is undecided"
		return
	}
	if s := solver.Unsupported(); s != "" {
		res.End, res.Msg = "inconclusive", "term not encodable: "+s
		return
	}
	// LIA: discharge the no-overflow side obligations of this path
	if ex.cfg.Mode == modeLIA && len(m.ovf) > 0 {
		bad := tFalse
		lo := mkConst(-1<<63, 64, true)
		hi := mkConst(1<<63-1, 64, true)
		for _, t := range m.ovf {
			if t.S {
				bad = mkOr(bad, mkOr(mkCmp("lt", t, lo), mkCmp("lt", hi, t)))
			} else {
				bad = mkOr(bad, mkCmp("lt", t, mkConst(0, 64, true)))
			}
		}
		if r := solver.Check(bad); r != Unsat {
			res.End, res.Msg = "inconclusive", "64-bit overflow possible under integer encoding ("+r.String()+")"
			return
		}
	}
	// sample: a model of the path condition with predicted observations
	if ex.wantSample() {
		if r, mod := solver.CheckModel(nil, m.sampleVars()); r == Sat {
			res.sample = &Sample{Harness: ex.name, Feed: m.feed(mod), Observes: m.evalObserves(mod), Case: strings.Join(m.caseTag, ","), Steps: m.steps}
		}
	}
	return
}

func (ex *Explorer) wantSample() bool {
	ex.mu.Lock()
	defer ex.mu.Unlock()
	return len(ex.Samples) < ex.cfg.Samples
}

// sampleVars: the nd variables plus every auxiliary variable the observations depend on.
func (m *Machine) sampleVars() []*Term {
	vs := m.ndTerms()
	seen := map[string]*Term{}
	var walk func(v Val)
	walk = func(v Val) {
		switch v := v.(type) {
		case *Term:
			termVars(v, seen)
		case *SymStr:
			for _, b := range v.B {
				walk(b)
			}
		case Slice:
			for _, b := range v {
				walk(b)
			}
		}
	}
	for _, o := range m.observes {
		walk(o.V)
	}
	have := map[string]bool{}
	for _, v := range vs {
		have[v.Name] = true
	}
	for n, t := range seen {
		if !have[n] {
			vs = append(vs, t)
		}
	}
	return vs
}

func (m *Machine) ndTerms() []*Term {
	ts := make([]*Term, len(m.nd))
	for i, r := range m.nd {
		ts[i] = r.T
	}
	return ts
}

func (m *Machine) feed(mod map[string]int64) []FeedItem {
	f := make([]FeedItem, len(m.nd))
	for i, r := range m.nd {
		f[i] = FeedItem{Name: r.Name, V: norm(mod[r.T.Name], r.T.W, r.T.S)}
	}
	return f
}

func (m *Machine) evalObserves(mod map[string]int64) []string {
	var out []string
	for _, o := range m.observes {
		out = append(out, o.Tag+"="+showObs(o.V, mod))
	}
	return out
}

func showObs(v Val, mod map[string]int64) string {
	switch v := v.(type) {
	case int64:
		return fmt.Sprint(v)
	case bool:
		if v {
			return "1"
		}
		return "0"
	case *Term:
		return fmt.Sprint(evalTerm(v, mod))
	case string:
		return fmt.Sprintf("%q", v)
	case *SymStr:
		return showObs(Slice(v.B), mod)
	case Slice:
		b := make([]byte, len(v))
		for i, x := range v {
			switch x := x.(type) {
			case int64:
				b[i] = byte(x)
			case *Term:
				b[i] = byte(evalTerm(x, mod))
			}
		}
		return fmt.Sprintf("%q", string(b))
	}
	return fmt.Sprintf("?%T", v)
}

// reportViolation records a counterexample: model of PC ∧ extra.
func (m *Machine) reportViolation(kind, id, msg string, extra *Term) {
	if m.solver.Lost {
		// the solver was restarted on this path (no answer long after its timeout): its context is gone, a "model" from
		// it would be arbitrary. The path is undecided.
		m.res.End = "inconclusive"
		m.res.Msg = "solver restarted on this path; candidate " + id + " not decided"
		return
	}
	r, mod := m.solver.CheckModel(extra, m.ndTerms())
	if r != Sat {
		if kind == "panic" {
			// PC was satisfiable when the panicking branch was taken; Unknown here is inconclusive
			m.res.End = "inconclusive"
			m.res.Msg = "no model for panic path: " + msg
		}
		return
	}
	v := &Violation{Harness: m.ex.name, Kind: kind, ID: id, Msg: msg, Case: strings.Join(m.caseTag, ","), Feed: m.feed(mod), Decisions: len(m.prefix)}
	if kind == "panic" {
		v.Stack = m.stack(m.curFrame)
	}
	m.res.violations = append(m.res.violations, v)
}

func (m *Machine) assertStat(id string) *assertStat {
	a := m.res.asserts[id]
	if a == nil {
		a = &assertStat{}
		m.res.asserts[id] = a
	}
	return a
}

// ------------------------------------------------------------------ harness API

type apiFn func(m *Machine, fr *frame, args []Val) Val

var apiStubs map[string]apiFn

func init() {
	apiStubs = map[string]apiFn{
		"ndInt": func(m *Machine, fr *frame, a []Val) Val {
			lo, hi := a[1].(int64), a[2].(int64)
			if lo == hi {
				// still consumes a feed slot
				t := m.fresh(a[0], "int", 64, true)
				m.assertPC(mkCmp("eq", t, mkConst(lo, 64, true)))
				return lo
			}
			t := m.fresh(a[0], "int", 64, true)
			// the constraint is built before the static range is attached (comparisons fold on static ranges)
			c := mkAnd(mkCmp("le", mkConst(lo, 64, true), t), mkCmp("le", t, mkConst(hi, 64, true)))
			m.assertPC(c)
			t.rlo, t.rhi, t.rstate = lo, hi, 1 // static range: narrow arithmetic on it prints without wrap-around, comparisons fold
			return t
		},
		"ndByte": func(m *Machine, fr *frame, a []Val) Val { return m.fresh(a[0], "byte", 8, false) },
		"ndBool": func(m *Machine, fr *frame, a []Val) Val { return m.fresh(a[0], "bool", 0, false) },
		"ndBytes": func(m *Machine, fr *frame, a []Val) Val {
			n := int(m.concretize(a[1]))
			s := make(Slice, n)
			name, _ := a[0].(string)
			for i := range s {
				s[i] = m.fresh(fmt.Sprintf("%s_%d", name, i), "byte", 8, false)
			}
			return s
		},
		"verifConc": func(m *Machine, fr *frame, a []Val) Val { return m.concretize(a[0]) },
		"verifAssume": func(m *Machine, fr *frame, a []Val) Val {
			switch c := a[0].(type) {
			case bool:
				if !c {
					panic(&pathEnd{kind: "assume"})
				}
			case *Term:
				m.assertPC(c)
				if r := m.solver.Check(nil); r == Unsat {
					panic(&pathEnd{kind: "assume"})
				}
			}
			return nil
		},
		"verifAssert": func(m *Machine, fr *frame, a []Val) Val {
			id := a[1].(string)
			st := m.assertStat(id)
			st.Reached++
			switch c := a[0].(type) {
			case bool:
				if c {
					st.Discharged++
				} else {
					n0 := len(m.res.violations)
					m.reportViolation("assert", id, "assertion "+id+" fails at "+m.posStr(fr), nil)
					if len(m.res.violations) == n0 {
						// no model for the path condition (solver unknown): neither a pass nor a reported failure
						st.Unknown++
						panic(&pathEnd{kind: "inconclusive", msg: "assertion " + id + " fails on a path whose model query was not answered"})
					}
					st.Failed++
					panic(&pathEnd{kind: "violation", msg: id})
				}
			case *Term:
				r, mod := m.solver.CheckModel(mkNot(c), m.ndTerms())
				switch r {
				case Unsat:
					st.Discharged++
				case Unknown:
					st.Unknown++
				case Sat:
					st.Failed++
					v := &Violation{Harness: m.ex.name, Kind: "assert", ID: id, Msg: "assertion " + id + " fails at " + m.posStr(fr),
						Case: strings.Join(m.caseTag, ","), Feed: m.feed(mod), Decisions: len(m.prefix)}
					m.res.violations = append(m.res.violations, v)
					// continue under the assumption that it held, to look for further distinct failures
					m.assertPC(c)
					if m.solver.Check(nil) == Unsat {
						panic(&pathEnd{kind: "violation", msg: id})
					}
				}
			}
			return nil
		},
		"verifObserve": func(m *Machine, fr *frame, a []Val) Val {
			m.observes = append(m.observes, obsRec{Tag: a[0].(string), V: a[1]})
			return nil
		},
		"verifObserveB": func(m *Machine, fr *frame, a []Val) Val {
			s, _ := a[1].(Slice)
			m.observes = append(m.observes, obsRec{Tag: a[0].(string), V: append(Slice{}, s...)})
			return nil
		},
		"verifObserveS": func(m *Machine, fr *frame, a []Val) Val {
			m.observes = append(m.observes, obsRec{Tag: a[0].(string), V: a[1]})
			return nil
		},
		"verifCase": func(m *Machine, fr *frame, a []Val) Val {
			s, ok := isConcreteStr(a[0])
			if !ok {
				s = "<symbolic>"
			}
			m.caseTag = append(m.caseTag, s)
			return nil
		},
		"verifEqBytes": func(m *Machine, fr *frame, a []Val) Val {
			x, _ := a[0].(Slice)
			y, _ := a[1].(Slice)
			return strEq(&SymStr{B: x}, &SymStr{B: y})
		},
		"verifAnd": func(m *Machine, fr *frame, a []Val) Val {
			return fromTerm(mkAnd(boolTerm(a[0]), boolTerm(a[1])))
		},
		"verifOr": func(m *Machine, fr *frame, a []Val) Val {
			return fromTerm(mkOr(boolTerm(a[0]), boolTerm(a[1])))
		},
		"verifIteInt": func(m *Machine, fr *frame, a []Val) Val {
			c := boolTerm(a[0])
			if c.IsConst() {
				if c.K != 0 {
					return a[1]
				}
				return a[2]
			}
			return fromTerm(mkIte(c, toTermW(a[1], 64, true), toTermW(a[2], 64, true)))
		},
		"verifTier": func(m *Machine, fr *frame, a []Val) Val { return int64(m.ex.cfg.Tier) },
		"verifSymbolic": func(m *Machine, fr *frame, a []Val) Val { return true },
		"verifUnreachable": func(m *Machine, fr *frame, a []Val) Val {
			panic(&pathEnd{kind: "inconclusive", msg: "harness reached verifUnreachable: " + fmt.Sprint(a[0])})
		},
	}
}

func (m *Machine) fresh(nameV Val, kind string, w int, s bool) *Term {
	name, _ := nameV.(string)
	vn := fmt.Sprintf("v_%s!%d", nameSan.ReplaceAllString(name, "_"), len(m.nd))
	t := mkVar(vn, w, s)
	m.nd = append(m.nd, NdRec{Name: name, Kind: kind, T: t})
	return t
}

// ------------------------------------------------------------------ summaries

func (ex *Explorer) sortedViolations() []*Violation {
	var vs []*Violation
	for _, v := range ex.Violations {
		vs = append(vs, v)
	}
	sort.Slice(vs, func(i, j int) bool { return vs[i].Key() < vs[j].Key() })
	return vs
}

var digitsRe = regexp.MustCompile(`-?\d+`)
var posFnRe = regexp.MustCompile(`\(([^)]*)\)$`)

// panicID identifies a panic by function and message class (line numbers and concrete values removed),
// so that unrelated edits of the file do not change the identity of a finding.
func panicID(e *goPanic) string {
	fn := "?"
	if mm := posFnRe.FindStringSubmatch(e.pos); mm != nil {
		fn = mm[1]
	}
	msg := e.msg
	if len(msg) > 80 {
		msg = msg[:80]
	}
	return fn + ": " + digitsRe.ReplaceAllString(msg, "N")
}
