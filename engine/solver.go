package main

import (
	"bufio"
	"fmt"
	"io"
	"os"
	"os/exec"
	"strconv"
	"strings"
	"sync/atomic"
	"time"
)

var traceSeq int32

type SatResult int

const (
	Unsat SatResult = iota
	Sat
	Unknown
)

func (r SatResult) String() string { return [...]string{"unsat", "sat", "unknown"}[r] }

type Solver struct {
	bin       []string
	cmd       *exec.Cmd
	in        io.WriteCloser
	out       *bufio.Reader
	mode      smtMode
	pr        *printer
	declared  map[string]bool
	Queries   int
	Time      time.Duration
	Errors    int
	timeoutMs int
	trace     io.Writer
	Lost      bool // the process was killed (no answer long after its own timeout) and restarted: context gone
	killed    int32
}

func NewSolver(mode smtMode, timeoutMs int, bin ...string) *Solver {
	if len(bin) == 0 {
		bin = []string{"z3", "-in"}
	}
	s := &Solver{bin: bin, mode: mode, timeoutMs: timeoutMs}
	s.start()
	return s
}

func (s *Solver) start() {
	s.cmd = exec.Command(s.bin[0], s.bin[1:]...)
	in, _ := s.cmd.StdinPipe()
	out, _ := s.cmd.StdoutPipe()
	s.cmd.Stderr = os.Stderr
	if err := s.cmd.Start(); err != nil {
		panic(err)
	}
	s.in = in
	s.out = bufio.NewReaderSize(out, 1<<16)
	if f := os.Getenv("GOSYM_SMT_TRACE"); f != "" && s.trace == nil {
		// one file per solver process (workers run concurrently); answers are recorded as "; => <answer>" comments
		// so that tools/crosscheck.py can replay the script on other solvers and compare verdicts
		n := atomic.AddInt32(&traceSeq, 1)
		w, _ := os.OpenFile(fmt.Sprintf("%s.%d.smt2", f, n), os.O_CREATE|os.O_WRONLY|os.O_TRUNC, 0o644)
		s.trace = w
	}
	s.Reset()
}

func (s *Solver) Close() {
	s.in.Close()
	s.cmd.Process.Kill()
	s.cmd.Wait()
}

func (s *Solver) send(cmd string) {
	if s.trace != nil {
		fmt.Fprintln(s.trace, cmd)
	}
	io.WriteString(s.in, cmd)
	io.WriteString(s.in, "\n")
}

func (s *Solver) Reset() {
	s.Lost = false
	s.send("(reset)")
	s.send("(set-option :print-success false)")
	if s.bin[0] != "cvc5" {
		s.send(fmt.Sprintf("(set-option :timeout %d)", s.timeoutMs))
	} else {
		s.send("(set-logic ALL)")
	}
	s.pr = &printer{mode: s.mode}
	s.declared = map[string]bool{}
}

func (s *Solver) declare(t *Term) {
	vs := map[string]*Term{}
	termVars(t, vs)
	for n, v := range vs {
		if !s.declared[n] {
			s.declared[n] = true
			s.send("(declare-const " + n + " " + s.pr.sortOf(v) + ")")
			if s.mode == modeLIA {
				if c := rangeConstraintLIA(v); c != "" {
					s.send("(assert " + c + ")")
				}
			}
		}
	}
}

func (s *Solver) fmtTerm(t *Term) string {
	s.declare(t)
	str := s.pr.str(t)
	for _, d := range s.pr.defs {
		s.send(d)
	}
	s.pr.defs = nil
	return str
}

// Unsupported reports whether some term could not be encoded since Reset.
func (s *Solver) Unsupported() string { return s.pr.unsupported }

func (s *Solver) Assert(t *Term) {
	if t.IsConst() && t.K == 1 {
		return
	}
	s.send("(assert " + s.fmtTerm(t) + ")")
}

func (s *Solver) readLine() string {
	for {
		line, err := s.out.ReadString('\n')
		if err != nil {
			return "(error \"solver died: " + err.Error() + "\")"
		}
		line = strings.TrimSpace(line)
		if line == "" {
			continue
		}
		return line
	}
}

func (s *Solver) readSexp() string {
	var sb strings.Builder
	depth := 0
	started := false
	for {
		line, err := s.out.ReadString('\n')
		if err != nil {
			return sb.String()
		}
		for _, c := range line {
			if c == '(' {
				depth++
				started = true
			} else if c == ')' {
				depth--
			}
		}
		sb.WriteString(line)
		if started && depth <= 0 {
			return sb.String()
		}
		if !started && strings.TrimSpace(line) != "" {
			return sb.String()
		}
	}
}

func (s *Solver) checkSat() SatResult {
	t0 := time.Now()
	s.send("(check-sat)")
	// z3 does not always honour its own timeout (preprocessing of div/mod-heavy integer problems): a watchdog kills the
	// process well after it; the path is then reported inconclusive (Lost)
	cmd := s.cmd
	wd := time.AfterFunc(time.Duration(s.timeoutMs)*time.Millisecond*3+5*time.Second, func() {
		atomic.StoreInt32(&s.killed, 1)
		cmd.Process.Kill()
	})
	line := s.readLine()
	wd.Stop()
	if atomic.LoadInt32(&s.killed) == 1 {
		atomic.StoreInt32(&s.killed, 0)
		s.Queries++
		s.Time += time.Since(t0)
		if s.trace != nil {
			fmt.Fprintln(s.trace, "; => killed")
		}
		s.cmd.Wait()
		s.start()
		s.Lost = true
		return Unknown
	}
	s.Queries++
	s.Time += time.Since(t0)
	if s.trace != nil {
		fmt.Fprintln(s.trace, "; => "+line)
	}
	switch line {
	case "sat":
		return Sat
	case "unsat":
		return Unsat
	case "unknown", "timeout":
		return Unknown
	}
	// error or unexpected output: drain nothing, count as unknown
	s.Errors++
	fmt.Fprintln(os.Stderr, "solver: unexpected reply:", line)
	if strings.Contains(line, "died") {
		s.start()
		s.Lost = true
	}
	return Unknown
}

// Check decides PC ∧ extra (extra may be nil).
func (s *Solver) Check(extra *Term) SatResult {
	if extra != nil && extra.IsConst() {
		if extra.K == 0 {
			return Unsat
		}
		extra = nil
	}
	if extra == nil {
		return s.checkSat()
	}
	e := s.fmtTerm(extra)
	s.send("(push)")
	s.send("(assert " + e + ")")
	r := s.checkSat()
	s.send("(pop)")
	if s.pr.unsupported != "" {
		return Unknown
	}
	return r
}

// CheckModel decides PC ∧ extra and, if sat, returns values of vars.
func (s *Solver) CheckModel(extra *Term, vars []*Term) (SatResult, map[string]int64) {
	for _, v := range vars {
		s.declare(v)
	}
	var e string
	if extra != nil {
		e = s.fmtTerm(extra)
	}
	s.send("(push)")
	if extra != nil {
		s.send("(assert " + e + ")")
	}
	r := s.checkSat()
	var m map[string]int64
	if r == Sat && len(vars) > 0 {
		m = s.getValues(vars)
	}
	s.send("(pop)")
	if s.pr.unsupported != "" {
		return Unknown, nil
	}
	return r, m
}

func (s *Solver) getValues(vars []*Term) map[string]int64 {
	m := map[string]int64{}
	// chunk to keep lines short
	for i := 0; i < len(vars); i += 50 {
		j := i + 50
		if j > len(vars) {
			j = len(vars)
		}
		var sb strings.Builder
		sb.WriteString("(get-value (")
		for _, v := range vars[i:j] {
			sb.WriteString(v.Name)
			sb.WriteByte(' ')
		}
		sb.WriteString("))")
		s.send(sb.String())
		parseValues(s.readSexp(), m)
	}
	return m
}

// parseValues parses ((name value) ...) where value is true/false/#x../#b../(_ bvN w)/N/(- N).
func parseValues(txt string, m map[string]int64) {
	toks := tokenize(txt)
	i := 0
	var parseVal func() (int64, bool)
	parseVal = func() (int64, bool) {
		t := toks[i]
		i++
		switch {
		case t == "true":
			return 1, true
		case t == "false":
			return 0, true
		case strings.HasPrefix(t, "#x"):
			u, _ := strconv.ParseUint(t[2:], 16, 64)
			return int64(u), true
		case strings.HasPrefix(t, "#b"):
			u, _ := strconv.ParseUint(t[2:], 2, 64)
			return int64(u), true
		case t == "(":
			// (_ bvN w) or (- N)
			if toks[i] == "_" {
				u, _ := strconv.ParseUint(strings.TrimPrefix(toks[i+1], "bv"), 10, 64)
				i += 4
				return int64(u), true
			}
			if toks[i] == "-" {
				i++
				v, _ := parseVal()
				i++ // ')'
				return -v, true
			}
			return 0, false
		default:
			if u, err := strconv.ParseUint(t, 10, 64); err == nil {
				return int64(u), true
			}
			return 0, false
		}
	}
	for i < len(toks) {
		if toks[i] == "(" && i+1 < len(toks) && toks[i+1] != "(" && toks[i+1] != ")" {
			name := toks[i+1]
			i += 2
			if v, ok := parseVal(); ok {
				m[name] = v
			}
			continue
		}
		i++
	}
}

func tokenize(s string) []string {
	var toks []string
	cur := ""
	flush := func() {
		if cur != "" {
			toks = append(toks, cur)
			cur = ""
		}
	}
	for _, c := range s {
		switch c {
		case '(', ')':
			flush()
			toks = append(toks, string(c))
		case ' ', '\n', '\t', '\r':
			flush()
		default:
			cur += string(c)
		}
	}
	flush()
	return toks
}
