package main

// Terms: typed symbolic scalars (bool, fixed-width ints) with eager constant
// folding, printed either as bit-vectors (exact wrap-around) or as
// mathematical integers (LIA) with explicit wrapping for narrow types.

import (
	"fmt"
	"math/big"
	"strings"
)

type Term struct {
	Op   string // const var add sub mul sdiv udiv srem urem and or xor shl lshr ashr bvnot eq lt le ite band bor bnot conv
	Args []*Term
	W    int  // 0 = bool, else bit width
	S    bool // signed
	K    int64
	Name string
	id   int
	// static value range: for variables an optional tighter range than the type's (digit variables), for other
	// terms a cache of rng()
	rlo, rhi int64
	rstate   int8 // 0 not computed, 1 known, 2 unknown
}

// mkVarRange: a variable whose values are known to lie in [lo,hi] (the caller asserts that in the path condition too).
func mkVarRange(name string, w int, s bool, lo, hi int64) *Term {
	return &Term{Op: "var", Name: name, W: w, S: s, rlo: lo, rhi: hi, rstate: 1}
}

func typeRange(w int, s bool) (int64, int64) {
	if s {
		return -(int64(1) << uint(w-1)), int64(1)<<uint(w-1) - 1
	}
	return 0, int64(1)<<uint(w) - 1
}

const rngCap = int64(1) << 61

func addOv(a, b int64) (int64, bool) {
	c := a + b
	if (a > 0 && b > 0 && c < 0) || (a < 0 && b < 0 && c >= 0) {
		return 0, false
	}
	return c, true
}

func mulOv(a, b int64) (int64, bool) {
	if a == 0 || b == 0 {
		return 0, true
	}
	c := a * b
	if c/b != a || (a == -1 && b == -1<<63) || (b == -1 && a == -1<<63) {
		return 0, false
	}
	return c, true
}

// mathRange: range of the un-wrapped mathematical value of an arithmetic node over the operands' ranges.
func (t *Term) mathRange() (lo, hi int64, ok bool) {
	if len(t.Args) != 2 {
		return 0, 0, false
	}
	al, ah, ok1 := t.Args[0].rng()
	bl, bh, ok2 := t.Args[1].rng()
	if !ok1 || !ok2 {
		return 0, 0, false
	}
	var o1, o2 bool
	switch t.Op {
	case "add":
		lo, o1 = addOv(al, bl)
		hi, o2 = addOv(ah, bh)
		return lo, hi, o1 && o2
	case "sub":
		if bl == -1<<63 || bh == -1<<63 {
			return 0, 0, false
		}
		lo, o1 = addOv(al, -bh)
		hi, o2 = addOv(ah, -bl)
		return lo, hi, o1 && o2
	case "mul":
		first := true
		for _, x := range [2]int64{al, ah} {
			for _, y := range [2]int64{bl, bh} {
				v, o := mulOv(x, y)
				if !o {
					return 0, 0, false
				}
				if first || v < lo {
					lo = v
				}
				if first || v > hi {
					hi = v
				}
				first = false
			}
		}
		return lo, hi, true
	case "div":
		// Go's integer division truncates towards zero: monotone in the dividend for a positive constant divisor
		if bl == bh && bl > 0 {
			return al / bl, ah / bl, true
		}
	}
	return 0, 0, false
}

// rng: a static over-approximation of the term's value in its own (signed or unsigned) reading, from the types and
// the declared ranges of variables only - no path condition involved. Unsigned 64-bit values of 2^63 and more have
// no representation here and make the range unknown.
func (t *Term) rng() (lo, hi int64, ok bool) {
	switch t.rstate {
	case 1:
		return t.rlo, t.rhi, true
	case 2:
		return 0, 0, false
	}
	set := func(l, h int64, k bool) (int64, int64, bool) {
		if k {
			t.rlo, t.rhi, t.rstate = l, h, 1
			return l, h, true
		}
		t.rstate = 2
		return 0, 0, false
	}
	if t.W == 0 {
		return set(0, 1, true)
	}
	narrow := t.W < 63
	var tl, th int64
	if narrow {
		tl, th = typeRange(t.W, t.S)
	}
	fit := func(l, h int64, k bool) (int64, int64, bool) {
		if k && narrow && (l < tl || h > th) {
			return set(tl, th, true) // may wrap: anything of the type
		}
		if k && !narrow && !t.S && l < 0 {
			return set(0, 0, false)
		}
		if k {
			return set(l, h, true)
		}
		if narrow {
			return set(tl, th, true)
		}
		return set(0, 0, false)
	}
	switch t.Op {
	case "const":
		if !t.S && t.W >= 64 && t.K < 0 {
			return set(0, 0, false)
		}
		return set(t.K, t.K, true)
	case "var":
		if narrow {
			return set(tl, th, true)
		}
		return set(0, 0, false)
	case "add", "sub", "mul", "div":
		return fit(t.mathRange())
	case "conv":
		l, h, k := t.Args[0].rng()
		if k && !narrow && !t.S && l < 0 {
			return set(0, 0, false) // negative value reinterpreted as unsigned 64-bit
		}
		return fit(l, h, k)
	case "ite":
		al, ah, ok1 := t.Args[1].rng()
		bl, bh, ok2 := t.Args[2].rng()
		if ok1 && ok2 {
			if bl < al {
				al = bl
			}
			if bh > ah {
				ah = bh
			}
			return fit(al, ah, true)
		}
	}
	if narrow {
		return set(tl, th, true)
	}
	return set(0, 0, false)
}

func (t *Term) IsBool() bool  { return t.W == 0 }
func (t *Term) IsConst() bool { return t.Op == "const" }

var (
	tTrue  = &Term{Op: "const", W: 0, K: 1}
	tFalse = &Term{Op: "const", W: 0, K: 0}
)

func mkBool(b bool) *Term {
	if b {
		return tTrue
	}
	return tFalse
}

// norm wraps v to width w / signedness s, stored in int64.
func norm(v int64, w int, s bool) int64 {
	if w >= 64 || w == 0 {
		return v
	}
	sh := uint(64 - w)
	if s {
		return (v << sh) >> sh
	}
	return int64((uint64(v) << sh) >> sh)
}

func mkConst(v int64, w int, s bool) *Term {
	return &Term{Op: "const", W: w, S: s, K: norm(v, w, s)}
}

func mkVar(name string, w int, s bool) *Term {
	return &Term{Op: "var", Name: name, W: w, S: s}
}

func sameTerm(a, b *Term) bool {
	if a == b {
		return true
	}
	if a.Op != b.Op || a.W != b.W || a.S != b.S || a.K != b.K || a.Name != b.Name || len(a.Args) != len(b.Args) {
		return false
	}
	for i := range a.Args {
		if !sameTerm(a.Args[i], b.Args[i]) {
			return false
		}
	}
	return true
}

func ucmp(a, b int64) int {
	ua, ub := uint64(a), uint64(b)
	switch {
	case ua < ub:
		return -1
	case ua > ub:
		return 1
	}
	return 0
}

func foldArith(op string, a, b int64, w int, s bool) (int64, bool) {
	switch op {
	case "add":
		return norm(a+b, w, s), true
	case "sub":
		return norm(a-b, w, s), true
	case "mul":
		return norm(a*b, w, s), true
	case "div":
		if b == 0 {
			return 0, false
		}
		if s {
			if a == -1<<63 && b == -1 {
				return a, true
			}
			return norm(a/b, w, s), true
		}
		return norm(int64(uint64(a)/uint64(b)), w, s), true
	case "rem":
		if b == 0 {
			return 0, false
		}
		if s {
			if b == -1 {
				return 0, true
			}
			return norm(a%b, w, s), true
		}
		return norm(int64(uint64(a)%uint64(b)), w, s), true
	case "and":
		return norm(a&b, w, s), true
	case "or":
		return norm(a|b, w, s), true
	case "xor":
		return norm(a^b, w, s), true
	case "andnot":
		return norm(a&^b, w, s), true
	case "shl":
		if uint64(b) >= 64 {
			return 0, true
		}
		return norm(a<<uint64(b), w, s), true
	case "shr":
		if s {
			if uint64(b) >= 64 {
				if a < 0 {
					return -1, true
				}
				return 0, true
			}
			return norm(a>>uint64(b), w, s), true
		}
		if uint64(b) >= 64 {
			return 0, true
		}
		return norm(int64(uint64(a)>>uint64(b)), w, s), true
	}
	return 0, false
}

// mkArith builds an arithmetic term over same-typed operands.
func mkArith(op string, a, b *Term) *Term {
	w, s := a.W, a.S
	if a.IsConst() && b.IsConst() {
		if v, ok := foldArith(op, a.K, b.K, w, s); ok {
			return mkConst(v, w, s)
		}
	}
	switch op {
	case "add":
		if a.IsConst() && a.K == 0 {
			return b
		}
		if b.IsConst() && b.K == 0 {
			return a
		}
	case "sub":
		if b.IsConst() && b.K == 0 {
			return a
		}
		if sameTerm(a, b) {
			return mkConst(0, w, s)
		}
	case "mul":
		if a.IsConst() && a.K == 1 {
			return b
		}
		if b.IsConst() && b.K == 1 {
			return a
		}
		if (a.IsConst() && a.K == 0) || (b.IsConst() && b.K == 0) {
			return mkConst(0, w, s)
		}
	case "andnot":
		return mkArith("and", a, &Term{Op: "bvnot", Args: []*Term{b}, W: w, S: s})
	}
	return &Term{Op: op, Args: []*Term{a, b}, W: w, S: s}
}

func mkCmp(op string, a, b *Term) *Term { // op: eq lt le  (signedness from a)
	if a.IsConst() && b.IsConst() {
		var c int
		if a.W == 0 || a.S {
			switch {
			case a.K < b.K:
				c = -1
			case a.K > b.K:
				c = 1
			}
		} else {
			c = ucmp(a.K, b.K)
		}
		switch op {
		case "eq":
			return mkBool(c == 0)
		case "lt":
			return mkBool(c < 0)
		case "le":
			return mkBool(c <= 0)
		}
	}
	if sameTerm(a, b) {
		return mkBool(op != "lt")
	}
	// decided by the static ranges alone (no path condition needed)
	if a.W > 0 && b.W > 0 {
		if al, ah, ok1 := a.rng(); ok1 {
			if bl, bh, ok2 := b.rng(); ok2 && (a.S == b.S || (al >= 0 && bl >= 0)) {
				switch op {
				case "lt":
					if ah < bl {
						return tTrue
					}
					if al >= bh {
						return tFalse
					}
				case "le":
					if ah <= bl {
						return tTrue
					}
					if al > bh {
						return tFalse
					}
				case "eq":
					if ah < bl || bh < al {
						return tFalse
					}
				}
			}
		}
	}
	if op == "eq" && a.W == 0 {
		if b.IsConst() {
			if b.K == 1 {
				return a
			}
			return mkNot(a)
		}
		if a.IsConst() {
			if a.K == 1 {
				return b
			}
			return mkNot(b)
		}
	}
	// eq of an ite over constants against a constant folds branch-wise
	if op == "eq" && b.IsConst() && a.Op == "ite" && a.Args[1].IsConst() && a.Args[2].IsConst() {
		return mkIte(a.Args[0], mkCmp("eq", a.Args[1], b), mkCmp("eq", a.Args[2], b))
	}
	return &Term{Op: op, Args: []*Term{a, b}, W: 0}
}

func mkNot(a *Term) *Term {
	if a.IsConst() {
		return mkBool(a.K == 0)
	}
	if a.Op == "bnot" {
		return a.Args[0]
	}
	return &Term{Op: "bnot", Args: []*Term{a}}
}

func mkAnd(a, b *Term) *Term {
	if a.IsConst() {
		if a.K == 0 {
			return tFalse
		}
		return b
	}
	if b.IsConst() {
		if b.K == 0 {
			return tFalse
		}
		return a
	}
	if sameTerm(a, b) {
		return a
	}
	return &Term{Op: "band", Args: []*Term{a, b}}
}

func mkOr(a, b *Term) *Term {
	if a.IsConst() {
		if a.K == 1 {
			return tTrue
		}
		return b
	}
	if b.IsConst() {
		if b.K == 1 {
			return tTrue
		}
		return a
	}
	if sameTerm(a, b) {
		return a
	}
	return &Term{Op: "bor", Args: []*Term{a, b}}
}

func mkIte(c, a, b *Term) *Term {
	if c.IsConst() {
		if c.K == 1 {
			return a
		}
		return b
	}
	if sameTerm(a, b) {
		return a
	}
	if a.W == 0 {
		if a.IsConst() && b.IsConst() {
			if a.K == 1 {
				return c
			}
			return mkNot(c)
		}
		return mkOr(mkAnd(c, a), mkAnd(mkNot(c), b))
	}
	return &Term{Op: "ite", Args: []*Term{c, a, b}, W: a.W, S: a.S}
}

func mkConv(a *Term, w int, s bool) *Term {
	if a.W == w && a.S == s {
		return a
	}
	if a.IsConst() {
		return mkConst(a.K, w, s)
	}
	// conv of conv where the inner one widened without changing value
	return &Term{Op: "conv", Args: []*Term{a}, W: w, S: s}
}

func mkBvNot(a *Term) *Term {
	if a.IsConst() {
		return mkConst(^a.K, a.W, a.S)
	}
	return &Term{Op: "bvnot", Args: []*Term{a}, W: a.W, S: a.S}
}

// ---------------------------------------------------------------- printing

type smtMode int

const (
	modeBV smtMode = iota
	modeLIA
)

type printer struct {
	mode smtMode
	// unsupported is set when a term cannot be expressed in the mode
	unsupported string
	memo        map[*Term]string
	defs        []string // pending define-fun commands
	ndef        int
}

var _ = strings.Builder{}

func pow2(n int) *big.Int { return new(big.Int).Lsh(big.NewInt(1), uint(n)) }

func (p *printer) constStr(t *Term) string {
	if t.W == 0 {
		if t.K != 0 {
			return "true"
		}
		return "false"
	}
	if p.mode == modeBV {
		u := uint64(t.K)
		if t.W < 64 {
			u &= (1 << uint(t.W)) - 1
		}
		return fmt.Sprintf("(_ bv%d %d)", u, t.W)
	}
	if t.S || t.W < 64 {
		if t.K < 0 {
			return fmt.Sprintf("(- %d)", new(big.Int).Neg(big.NewInt(t.K)))
		}
		return fmt.Sprintf("%d", t.K)
	}
	return fmt.Sprintf("%d", uint64(t.K))
}

func (p *printer) sortOf(t *Term) string {
	if t.W == 0 {
		return "Bool"
	}
	if p.mode == modeBV {
		return fmt.Sprintf("(_ BitVec %d)", t.W)
	}
	return "Int"
}

// wrapLIA wraps expression e (mathematical) into the range of (w,s).
func wrapLIA(e string, w int, s bool) string {
	m := pow2(w).String()
	if !s {
		return "(mod " + e + " " + m + ")"
	}
	h := pow2(w - 1).String()
	return "(- (mod (+ " + e + " " + h + ") " + m + ") " + h + ")"
}

func (p *printer) str(t *Term) string {
	switch t.Op {
	case "const":
		return p.constStr(t)
	case "var":
		return t.Name
	}
	if s, ok := p.memo[t]; ok {
		return s
	}
	s := p.str1(t)
	if len(s) > 120 {
		p.ndef++
		name := fmt.Sprintf("d!%d", p.ndef)
		p.defs = append(p.defs, "(define-fun "+name+" () "+p.sortOf(t)+" "+s+")")
		s = name
	}
	if p.memo == nil {
		p.memo = map[*Term]string{}
	}
	p.memo[t] = s
	return s
}

func (p *printer) str1(t *Term) string {
	switch t.Op {
	case "band":
		return "(and " + p.str(t.Args[0]) + " " + p.str(t.Args[1]) + ")"
	case "bor":
		return "(or " + p.str(t.Args[0]) + " " + p.str(t.Args[1]) + ")"
	case "bnot":
		return "(not " + p.str(t.Args[0]) + ")"
	case "ite":
		return "(ite " + p.str(t.Args[0]) + " " + p.str(t.Args[1]) + " " + p.str(t.Args[2]) + ")"
	case "eq":
		return "(= " + p.str(t.Args[0]) + " " + p.str(t.Args[1]) + ")"
	}
	if p.mode == modeBV {
		return p.strBV(t)
	}
	return p.strLIA(t)
}

func (p *printer) strBV(t *Term) string {
	a := t.Args
	bin := func(op string) string { return "(" + op + " " + p.str(a[0]) + " " + p.str(a[1]) + ")" }
	sg := func(s, u string) string {
		if a[0].S {
			return s
		}
		return u
	}
	switch t.Op {
	case "add":
		return bin("bvadd")
	case "sub":
		return bin("bvsub")
	case "mul":
		return bin("bvmul")
	case "div":
		return bin(sg("bvsdiv", "bvudiv"))
	case "rem":
		return bin(sg("bvsrem", "bvurem"))
	case "and":
		return bin("bvand")
	case "or":
		return bin("bvor")
	case "xor":
		return bin("bvxor")
	case "shl":
		return bin("bvshl")
	case "shr":
		return bin(sg("bvashr", "bvlshr"))
	case "bvnot":
		return "(bvnot " + p.str(a[0]) + ")"
	case "lt":
		return bin(sg("bvslt", "bvult"))
	case "le":
		return bin(sg("bvsle", "bvule"))
	case "conv":
		x := a[0]
		if x.W == 0 {
			p.unsupported = "conv from bool"
			return "false"
		}
		switch {
		case t.W == x.W:
			return p.str(x)
		case t.W < x.W:
			return fmt.Sprintf("((_ extract %d 0) %s)", t.W-1, p.str(x))
		case x.S:
			return fmt.Sprintf("((_ sign_extend %d) %s)", t.W-x.W, p.str(x))
		default:
			return fmt.Sprintf("((_ zero_extend %d) %s)", t.W-x.W, p.str(x))
		}
	}
	p.unsupported = "op " + t.Op
	return "false"
}

func (p *printer) strLIA(t *Term) string {
	a := t.Args
	wrap := func(e string) string {
		if t.W >= 64 {
			return e // 64-bit: overflow handled by side obligations
		}
		// no wrap-around possible by the static ranges of the operands: the mod is left out
		if lo, hi, ok := t.mathRange(); ok {
			if tl, th := typeRange(t.W, t.S); lo >= tl && hi <= th {
				return e
			}
		}
		return wrapLIA(e, t.W, t.S)
	}
	bin := func(op string) string { return "(" + op + " " + p.str(a[0]) + " " + p.str(a[1]) + ")" }
	switch t.Op {
	case "add":
		return wrap(bin("+"))
	case "sub":
		return wrap(bin("-"))
	case "mul":
		return wrap(bin("*"))
	case "div", "rem":
		x, y := p.str(a[0]), p.str(a[1])
		var q string
		if !a[0].S {
			q = "(div " + x + " " + y + ")"
		} else {
			q = "(ite (>= " + x + " 0) (div " + x + " " + y + ") (- (div (- " + x + ") " + y + ")))"
		}
		if t.Op == "div" {
			return wrap(q)
		}
		return "(- " + x + " (* " + y + " " + q + "))"
	case "lt":
		return bin("<")
	case "le":
		return bin("<=")
	case "shl":
		if a[1].IsConst() && a[1].K >= 0 && a[1].K < 62 {
			return wrap("(* " + p.str(a[0]) + " " + pow2(int(a[1].K)).String() + ")")
		}
	case "shr":
		if a[1].IsConst() && a[1].K >= 0 && a[1].K < 62 && !a[0].S {
			return "(div " + p.str(a[0]) + " " + pow2(int(a[1].K)).String() + ")"
		}
	case "and":
		// x & (2^k-1)
		for i := 0; i < 2; i++ {
			if a[i].IsConst() && a[i].K > 0 && (a[i].K&(a[i].K+1)) == 0 && !a[1-i].S {
				return "(mod " + p.str(a[1-i]) + " " + fmt.Sprint(a[i].K+1) + ")"
			}
		}
	case "fdiv":
		return bin("div")
	case "fmod":
		return bin("mod")
	case "conv":
		x := a[0]
		if x.W == 0 {
			p.unsupported = "conv from bool"
			return "0"
		}
		e := p.str(x)
		// value-preserving widenings need no wrap
		if (x.S == t.S && t.W >= x.W) || (!x.S && t.S && t.W > x.W) {
			return e
		}
		if t.W >= 64 && x.W >= 64 {
			// int64<->uint64 reinterpretation: the value is kept when it is known to be non-negative
			if lo, _, ok := x.rng(); ok && lo >= 0 {
				return e
			}
			return wrapLIA(e, 64, t.S)
		}
		if lo, hi, ok := x.rng(); ok && t.W < 62 {
			if tl, th := typeRange(t.W, t.S); lo >= tl && hi <= th {
				return e
			}
		}
		return wrapLIA(e, t.W, t.S)
	}
	p.unsupported = "op " + t.Op + " in LIA"
	return "0"
}

// rangeConstraint returns the LIA typing constraint of a variable.
func rangeConstraintLIA(v *Term) string {
	if v.W == 0 {
		return ""
	}
	var lo, hi *big.Int
	if v.S {
		lo = new(big.Int).Neg(pow2(v.W - 1))
		hi = new(big.Int).Sub(pow2(v.W-1), big.NewInt(1))
	} else {
		lo = big.NewInt(0)
		hi = new(big.Int).Sub(pow2(v.W), big.NewInt(1))
	}
	los := lo.String()
	if lo.Sign() < 0 {
		los = "(- " + new(big.Int).Neg(lo).String() + ")"
	}
	return fmt.Sprintf("(and (>= %s %s) (<= %s %s))", v.Name, los, v.Name, hi.String())
}

// termVars collects variables.
func termVars(t *Term, seen map[string]*Term) {
	if t.Op == "var" {
		seen[t.Name] = t
		return
	}
	for _, a := range t.Args {
		termVars(a, seen)
	}
}

// evalTerm evaluates a term under a model of its variables.
func evalTerm(t *Term, m map[string]int64) int64 {
	switch t.Op {
	case "const":
		return t.K
	case "var":
		return norm(m[t.Name], t.W, t.S)
	case "band":
		if evalTerm(t.Args[0], m) != 0 && evalTerm(t.Args[1], m) != 0 {
			return 1
		}
		return 0
	case "bor":
		if evalTerm(t.Args[0], m) != 0 || evalTerm(t.Args[1], m) != 0 {
			return 1
		}
		return 0
	case "bnot":
		return 1 - evalTerm(t.Args[0], m)
	case "ite":
		if evalTerm(t.Args[0], m) != 0 {
			return evalTerm(t.Args[1], m)
		}
		return evalTerm(t.Args[2], m)
	case "eq", "lt", "le":
		a, b := t.Args[0], t.Args[1]
		r := mkCmp(t.Op, mkConst(evalTerm(a, m), a.W, a.S), mkConst(evalTerm(b, m), b.W, b.S))
		return r.K
	case "conv":
		return norm(evalTerm(t.Args[0], m), t.W, t.S)
	case "bvnot":
		return norm(^evalTerm(t.Args[0], m), t.W, t.S)
	case "fdiv", "fmod":
		a, k := evalTerm(t.Args[0], m), evalTerm(t.Args[1], m)
		q, r := a/k, a%k
		if r < 0 {
			q--
			r += k
		}
		if t.Op == "fdiv" {
			return q
		}
		return r
	default:
		a, b := evalTerm(t.Args[0], m), evalTerm(t.Args[1], m)
		op := t.Op
		if op == "andnot" {
			op, b = "and", ^b
		}
		v, _ := foldArith(op, a, b, t.W, t.S)
		return v
	}
}
