package main

import (
	"encoding/json"
	"fmt"
	"go/constant"
	"os"
	"path/filepath"
	"sort"
	"strconv"
	"strings"
	"time"

	"golang.org/x/tools/go/ssa"
)

type fsState struct{} // placeholder, see fs_stubs.go

func cmdCheck(args []string) int {
	if len(args) < 1 {
		fmt.Println("usage: gosym check <property> [--tier quick|thorough]")
		return 2
	}
	prop := args[0]
	tierName := os.Getenv("VERIF_TIER")
	verbose := false
	for i := 1; i < len(args); i++ {
		switch args[i] {
		case "--tier", "-tier":
			if i+1 < len(args) {
				tierName = args[i+1]
				i++
			}
		case "-v":
			verbose = true
		}
	}
	if tierName != "thorough" {
		tierName = "quick"
	}
	tier := 0
	if tierName == "thorough" {
		tier = 1
	}
	seed, _ := strconv.Atoi(os.Getenv("VERIF_SEED"))
	t0 := time.Now()

	var all map[string]CheckSpec
	data, err := os.ReadFile(filepath.Join(verifDir, "checks.json"))
	if err != nil {
		fmt.Println("cannot read checks.json:", err)
		return 2
	}
	if err := json.Unmarshal(data, &all); err != nil {
		fmt.Println("checks.json:", err)
		return 2
	}
	cs, ok := all[prop]
	if !ok {
		fmt.Println("no check registered for", prop)
		return 2
	}
	var specs []HarnessSpec
	for _, h := range cs.Harnesses {
		if h.Tiers == "" || h.Tiers == tierName {
			specs = append(specs, h)
		}
	}
	budget := 9 * time.Minute
	if tier == 1 {
		budget = 55 * time.Minute
	}
	if s := os.Getenv("VERIF_BUDGET_S"); s != "" {
		if n, err := strconv.Atoi(s); err == nil {
			budget = time.Duration(n) * time.Second
		}
	}
	deadline := t0.Add(budget)
	workers := 16
	if s := os.Getenv("VERIF_WORKERS"); s != "" {
		if n, err := strconv.Atoi(s); err == nil && n > 0 {
			workers = n
		}
	}

	ev := &Evidence{PropertyID: prop, Tier: tierName, Seed: seed, Level: "model_checking"}
	ev.Assumptions = append(ev.Assumptions, cs.Assumptions...)
	ev.Coverage.Outside = cs.Outside
	ev.Coverage.Technique = "bounded symbolic execution of the Go SSA of /repo's working tree (own interpreter) with z3 deciding every branch feasibility and every assertion; counterexamples replayed natively"

	results, loadInfo, err := runHarnesses(specs, tier, deadline, workers, verbose)
	if err != nil {
		fmt.Printf("INCONCLUSIVE property=%s %v\n", prop, err)
		ev.Coverage.Explanation = "harness did not load against the current tree: " + err.Error()
		ev.Coverage.States, ev.Coverage.Transitions = 1, 1
		ev.Coverage.Samples = []any{"load failure: no path explored"}
		ev.WallS = time.Since(t0).Seconds()
		writeEvidence(ev)
		return 0
	}
	fmt.Println(loadInfo)
	known := loadKnown()
	exit := 0
	outDir := filepath.Join(verifDir, "out", prop)
	os.MkdirAll(outDir, 0o755)
	exhaustive := true
	funcs := map[string]bool{}
	stubsUsed := map[string]bool{}
	knownPrinted := map[string]bool{}

	for _, r := range results {
		printSummary(r)
		hs := HarnessEvidence{Harness: r.Spec.Name, Package: pkgPathOf(r.Spec.Dir), Mode: r.Spec.Mode, Bounds: r.Spec.Bounds, WallS: r.Wall}
		if r.Error != "" {
			hs.Error = r.Error
			exhaustive = false
			fmt.Printf("INCONCLUSIVE property=%s harness=%s %s\n", prop, r.Spec.Name, r.Error)
			ev.Coverage.Harnesses = append(ev.Coverage.Harnesses, hs)
			continue
		}
		ex := r.Ex
		hs.Paths, hs.Ends, hs.Decisions, hs.Queries, hs.SolverS = ex.Paths, ex.Ends, ex.Transitions, ex.Queries, ex.SolverTime.Seconds()
		hs.Unwind, hs.MaxSteps, hs.MaxStepsSeen = ex.cfg.Unwind, ex.cfg.MaxSteps, ex.MaxStepsSeen
		hs.Asserts = map[string]assertStat{}
		for id, a := range ex.Asserts {
			hs.Asserts[id] = *a
			ev.Coverage.Obligations += a.Reached
			ev.Coverage.Discharged += a.Discharged
			ev.Coverage.InconclusiveObl += a.Unknown
			if a.Unknown > 0 {
				exhaustive = false
			}
		}
		for k, n := range ex.Inconclusive {
			if ex.cfg.HangCheck && strings.HasPrefix(k, "unwind:") {
				continue // decided by native replay below (hang or not)
			}
			hs.Inconclusive = append(hs.Inconclusive, fmt.Sprintf("%s (x%d)", k, n))
			fmt.Printf("INCONCLUSIVE property=%s harness=%s %s (x%d)\n", prop, r.Spec.Name, k, n)
			exhaustive = false
		}
		sort.Strings(hs.Inconclusive)
		if ex.stopped {
			hs.Stopped = ex.stopWhy
			exhaustive = false
			fmt.Printf("INCONCLUSIVE property=%s harness=%s exploration stopped: %s\n", prop, r.Spec.Name, ex.stopWhy)
		}
		if ex.UnknownBr > 0 {
			hs.Inconclusive = append(hs.Inconclusive, fmt.Sprintf("%d branch feasibility queries answered unknown (branch kept)", ex.UnknownBr))
		}
		if ex.SolverErrors > 0 {
			exhaustive = false
			hs.Inconclusive = append(hs.Inconclusive, fmt.Sprintf("%d solver replies were errors (treated as unknown)", ex.SolverErrors))
		}
		// vacuity: a harness must complete at least one feasible path and reach every assertion it declares
		if ex.Ends["complete"] == 0 && len(ex.Violations) == 0 {
			exhaustive = false
			hs.Inconclusive = append(hs.Inconclusive, "VACUOUS: no path of this harness ran to completion")
			fmt.Printf("INCONCLUSIVE property=%s harness=%s VACUOUS no completed path\n", prop, r.Spec.Name)
		}
		// vacuity guard: assertion ids that occur as constants in the harness' call closure but were never reached
		for _, id := range declaredAsserts(ex.harness) {
			if _, ok := ex.Asserts[id]; !ok {
				hs.NeverReached = append(hs.NeverReached, id)
			}
		}
		sort.Strings(hs.NeverReached)
		if len(hs.NeverReached) > 0 {
			fmt.Printf("NOTE property=%s harness=%s assertions never reached in this tier: %s\n", prop, r.Spec.Name, strings.Join(hs.NeverReached, ", "))
		}
		for f := range ex.Funcs {
			funcs[f] = true
		}
		for s := range ex.Stubs {
			stubsUsed[s] = true
		}
		ev.Coverage.States += ex.Paths
		ev.Coverage.Transitions += ex.Transitions
		ev.Coverage.Queries += ex.Queries
		ev.Coverage.SolverS += ex.SolverTime.Seconds()

		// native replay: violations first, then witness samples
		vs := ex.sortedViolations()
		var jobs []replayJob
		for _, v := range vs {
			jobs = append(jobs, replayJob{Harness: v.Harness, Tier: tier, Feed: v.Feed})
		}
		nSamples := len(ex.Samples)
		maxW := 25
		if tier == 1 {
			maxW = 200
		}
		if nSamples > maxW {
			nSamples = maxW
		}
		for _, s := range ex.Samples[:nSamples] {
			jobs = append(jobs, replayJob{Harness: s.Harness, Tier: tier, Feed: s.Feed})
		}
		rr := nativeReplay(r.Spec.Dir, jobs, prop+"-"+r.Spec.Name)
		for i, v := range vs {
			verdict := rr[i].Verdict
			v.Confirmed = verdict
			rec := map[string]any{"dir": r.Spec.Dir, "tier": tier, "property": prop, "violation": v}
			file := filepath.Join(outDir, fmt.Sprintf("%s-%d.replay.json", r.Spec.Name, i))
			b, _ := json.MarshalIndent(rec, "", " ")
			os.WriteFile(file, b, 0o644)
			if !verdictMatches(v, verdict) {
				hs.EngineMismatches++
				exhaustive = false
				fmt.Printf("ENGINE-MISMATCH property=%s harness=%s %s %s: symbolic counterexample does not reproduce natively (native: %s) file=%s\n", prop, r.Spec.Name, v.Kind, v.ID, verdict, file)
				continue
			}
			if k := matchKnown(known, prop, v); k != nil {
				key := k.Harness + "|" + k.ID + "|" + k.Case
				if !knownPrinted[key] {
					knownPrinted[key] = true
					fmt.Printf("KNOWN-FINDING: property=%s %s\n", prop, k.Summary)
				}
				ev.Coverage.KnownFindings = append(ev.Coverage.KnownFindings, k.Summary)
				continue
			}
			exit = 1
			ev.Violations++
			fmt.Printf("VIOLATION property=%s replay=%s\n", prop, file)
			fmt.Printf("  harness=%s kind=%s id=%s case=%q native=%q\n  %s\n  feed: %s\n", r.Spec.Name, v.Kind, v.ID, v.Case, verdict, v.Msg, feedStr(v.Feed))
			hs.Violations = append(hs.Violations, v.Key())
		}
		// witness validation
		for i, s := range ex.Samples[:nSamples] {
			res := rr[len(vs)+i]
			okW := res.Verdict == "ok" && sameStrings(res.Obs, s.Observes)
			if okW {
				ev.Coverage.Traces++
			} else {
				hs.WitnessMismatches++
				exhaustive = false
				fmt.Printf("ENGINE-MISMATCH property=%s harness=%s witness %d: native=%q obs=%v predicted=%v feed=%s\n", prop, r.Spec.Name, i, res.Verdict, res.Obs, s.Observes, feedStr(s.Feed))
			}
		}
		for i, s := range ex.Samples {
			if i >= 3 {
				break
			}
			ev.Coverage.Samples = append(ev.Coverage.Samples, s)
		}
		ev.Coverage.Harnesses = append(ev.Coverage.Harnesses, hs)
	}
	for f := range funcs {
		ev.Coverage.FunctionsEncoded = append(ev.Coverage.FunctionsEncoded, f)
	}
	sort.Strings(ev.Coverage.FunctionsEncoded)
	for s := range stubsUsed {
		ev.Coverage.StubsUsed = append(ev.Coverage.StubsUsed, s)
	}
	sort.Strings(ev.Coverage.StubsUsed)
	ev.Coverage.Exhaustive = exhaustive
	if ev.Coverage.States == 0 {
		ev.Coverage.States = 1
	}
	if ev.Coverage.Transitions == 0 {
		ev.Coverage.Transitions = 1
	}
	if len(ev.Coverage.Samples) == 0 {
		ev.Coverage.Samples = []any{"no completed path sample available"}
	}
	ev.Coverage.Explanation = fmt.Sprintf("states = feasible paths explored; transitions = solver-decided branch/concretisation decisions; obligations = assertion instances reached (implicit run-time-panic obligations are checked on every path in addition); exhaustive_within_bounds=%v", exhaustive)
	ev.WallS = time.Since(t0).Seconds()
	writeEvidence(ev)
	fmt.Printf("property=%s tier=%s paths=%d decisions=%d obligations=%d discharged=%d witnesses=%d violations=%d exhaustive_within_bounds=%v wall=%.1fs\n",
		prop, tierName, ev.Coverage.States, ev.Coverage.Transitions, ev.Coverage.Obligations, ev.Coverage.Discharged, ev.Coverage.Traces, ev.Violations, exhaustive, ev.WallS)
	return exit
}

func sameStrings(a, b []string) bool {
	if len(a) != len(b) {
		return false
	}
	for i := range a {
		if a[i] != b[i] {
			return false
		}
	}
	return true
}

func matchKnown(known []KnownFinding, prop string, v *Violation) *KnownFinding {
	for i := range known {
		k := &known[i]
		if k.Property == prop && k.Harness == v.Harness && k.Kind == v.Kind && k.ID == v.ID && k.Case == v.Case {
			return k
		}
	}
	return nil
}

type HarnessEvidence struct {
	Harness           string                `json:"harness"`
	Package           string                `json:"package"`
	Mode              string                `json:"arithmetic_encoding"`
	Bounds            string                `json:"bounds,omitempty"`
	Paths             int                   `json:"paths"`
	Ends              map[string]int        `json:"path_ends"`
	Decisions         int                   `json:"decisions"`
	Queries           int                   `json:"queries"`
	SolverS           float64               `json:"solver_time_s"`
	WallS             float64               `json:"wall_s"`
	Unwind            int                   `json:"unwind_bound_per_block"`
	MaxSteps          int                   `json:"step_bound_per_path"`
	MaxStepsSeen      int                   `json:"max_steps_seen"`
	Asserts           map[string]assertStat `json:"assertions"`
	Inconclusive      []string              `json:"inconclusive,omitempty"`
	Stopped           string                `json:"stopped,omitempty"`
	EngineMismatches  int                   `json:"engine_mismatches"`
	WitnessMismatches int                   `json:"witness_mismatches"`
	Violations        []string              `json:"violations,omitempty"`
	NeverReached      []string              `json:"assertions_never_reached,omitempty"`
	Error             string                `json:"error,omitempty"`
}

type Coverage struct {
	States           int               `json:"states"`
	Transitions      int               `json:"transitions"`
	Traces           int               `json:"traces_validated_against_impl"`
	Samples          []any             `json:"samples"`
	Obligations      int               `json:"obligations"`
	Discharged       int               `json:"discharged"`
	InconclusiveObl  int               `json:"inconclusive_obligations"`
	Exhaustive       bool              `json:"exhaustive_within_bounds"`
	Queries          int               `json:"queries"`
	SolverS          float64           `json:"solver_time_s"`
	Technique        string            `json:"technique"`
	Explanation      string            `json:"explanation"`
	Harnesses        []HarnessEvidence `json:"harnesses"`
	FunctionsEncoded []string          `json:"functions_encoded"`
	StubsUsed        []string          `json:"stubs_used"`
	Outside          []string          `json:"outside_the_claim,omitempty"`
	KnownFindings    []string          `json:"known_findings_matched,omitempty"`
}

type Evidence struct {
	PropertyID  string   `json:"property_id"`
	Tier        string   `json:"tier"`
	Seed        int      `json:"seed"`
	Level       string   `json:"level"`
	Coverage    Coverage `json:"coverage"`
	Assumptions []string `json:"assumptions"`
	WallS       float64  `json:"wall_s"`
	Violations  int      `json:"violations"`
}

func writeEvidence(ev *Evidence) {
	if ev.Assumptions == nil {
		ev.Assumptions = []string{}
	}
	dir := filepath.Join(verifDir, "evidence")
	os.MkdirAll(dir, 0o755)
	b, _ := json.MarshalIndent(ev, "", " ")
	os.WriteFile(filepath.Join(dir, ev.PropertyID+".json"), b, 0o644)
}

var _ = strings.TrimSpace

// declaredAsserts walks the static call closure of the harness inside the harness files (zz_verif_*) and
// collects the constant assertion ids passed to verifAssert.
func declaredAsserts(h *ssa.Function) []string {
	seen := map[*ssa.Function]bool{}
	ids := map[string]bool{}
	var walk func(f *ssa.Function)
	walk = func(f *ssa.Function) {
		if f == nil || seen[f] || f.Blocks == nil {
			return
		}
		seen[f] = true
		pos := f.Prog.Fset.Position(f.Pos())
		if f != h && !strings.Contains(pos.Filename, "zz_verif_") {
			return
		}
		for _, b := range f.Blocks {
			for _, ins := range b.Instrs {
				switch c := ins.(type) {
				case *ssa.Call:
					if callee := c.Call.StaticCallee(); callee != nil {
						if callee.Name() == "verifAssert" && len(c.Call.Args) == 2 {
							if k, ok := c.Call.Args[1].(*ssa.Const); ok && k.Value != nil {
								ids[constant.StringVal(k.Value)] = true
							}
						}
						walk(callee)
					}
				case *ssa.MakeClosure:
					if fn, ok := c.Fn.(*ssa.Function); ok {
						walk(fn)
					}
				}
			}
		}
		for _, an := range f.AnonFuncs {
			walk(an)
		}
	}
	walk(h)
	var out []string
	for id := range ids {
		out = append(out, id)
	}
	sort.Strings(out)
	return out
}
