//go:build verif

package quickfix

func init() {
	verifRegister("C10_ops", VerifHarness_C10_ops)
	verifRegister("C10_group", VerifHarness_C10_group)
	verifRegister("C10_copy", VerifHarness_C10_copy)
}

// abstract field set of one section
type c10Field struct {
	tag   int
	val   []byte
	group [][]byte // for a group: the expected tag=value run after the count field, as (tagtext,value) pairs flattened
}

type c10Model struct{ fields []c10Field }

func (m *c10Model) set(tag int, val []byte) {
	for i := range m.fields {
		if m.fields[i].tag == tag {
			m.fields[i].val = val
			m.fields[i].group = nil
			return
		}
	}
	m.fields = append(m.fields, c10Field{tag: tag, val: val})
}

func (m *c10Model) remove(tag int) {
	for i := range m.fields {
		if m.fields[i].tag == tag {
			m.fields = append(m.fields[:i:i], m.fields[i+1:]...)
			return
		}
	}
}

func c10Section(m *Message, sec int) *FieldMap {
	switch sec {
	case 0:
		return &m.Header.FieldMap
	case 1:
		return &m.Body.FieldMap
	}
	return &m.Trailer.FieldMap
}

func c10BodyTag(name string) int {
	// a tag that is neither a header nor a trailer tag: the free intervals between the reserved numbers
	t := ndInt(name, 1, 9999)
	in := func(lo, hi int) bool { return verifAnd(t >= lo, t <= hi) }
	if verifTier() == 0 {
		verifAssume(verifOr(in(1, 7), verifOr(in(11, 33), in(58, 88))))
	} else {
		verifAssume(verifOr(in(1, 7), verifOr(in(11, 33), verifOr(in(58, 88), verifOr(in(146, 211), in(1157, 9999))))))
	}
	return t
}

// c10Check compares the built bytes with the abstract field sets.
func c10Check(b []byte, model *[3]c10Model, pfx string) {
	fs := verifWellFormed(b, pfx)
	if fs == nil {
		return
	}
	expected := 2 // 9 and 10 are maintained by the library
	// every wire field is accounted for by the model (exactly-once + nothing-else), so the section order
	// header* body* trailer* is checked on the positions of the model's fields
	lastOfPrev := 1 // field 9 sits at index 1 and belongs to the header
	for s := 0; s < 3; s++ {
		lo, hi := len(fs), -1
		for _, f := range model[s].fields {
			n, at := verifCount(fs, f.tag)
			verifAssert(n == 1, pfx+"-each-set-field-exactly-once")
			if n == 1 {
				verifAssert(verifBytesEq(fs[at].val, f.val), pfx+"-latest-value")
				if at < lo {
					lo = at
				}
				if at > hi {
					hi = at
				}
			}
			expected++
		}
		if hi >= 0 {
			verifAssert(lo > lastOfPrev || s == 0, pfx+"-section-order")
			if hi > lastOfPrev {
				lastOfPrev = hi
			}
		}
	}
	verifAssert(lastOfPrev < len(fs)-1 || expected == 2, pfx+"-section-order")
	verifAssert(len(fs) == expected, pfx+"-nothing-else-on-the-wire")
}

func VerifHarness_C10_ops() {
	m := NewMessage()
	var model [3]c10Model
	m.Header.SetString(tagBeginString, "FIX.4.2")
	model[0].set(8, []byte("FIX.4.2"))
	m.Header.SetString(tagMsgType, "D")
	model[0].set(35, []byte("D"))
	b1 := c10BodyTag("btag1")
	b2 := c10BodyTag("btag2")
	// four slots: a header tag, two symbolic body tags (possibly equal), a trailer tag
	slotSec := [4]int{0, 1, 1, 2}
	slotTag := [4]int{int(tagSenderCompID), b1, b2, int(tagSignatureLength)}
	// a field may already be there, so that the tag list is not in sort order when the operations start
	if ndBool("second-body-tag-already-set") {
		v0 := verifValueN("val0", 1)
		m.Body.SetBytes(Tag(b2), v0)
		model[1].set(b2, v0)
	}
	K := 3
	nops := 2 + 3*verifTier()
	for k := 0; k < K; k++ {
		slot := verifConc(ndInt("slot", 0, 3))
		sec, t := slotSec[slot], slotTag[slot]
		fm := c10Section(m, sec)
		switch verifConc(ndInt("op", 0, nops-1)) {
		case 0:
			verifCase("set")
			v := verifValueN("val", 1) // longer values: C10_roundtrip, C10_copy
			fm.SetBytes(Tag(t), v)
			model[sec].set(t, v)
		case 1:
			verifCase("remove")
			fm.Remove(Tag(t))
			model[sec].remove(t)
		case 2:
			verifCase("setint")
			x := ndInt("int", -9, 120)
			fm.SetInt(Tag(t), x)
			model[sec].set(t, verifItoa(x))
		case 3:
			verifCase("setbool")
			x := ndBool("bool")
			fm.SetBool(Tag(t), x)
			if x {
				model[sec].set(t, []byte("Y"))
			} else {
				model[sec].set(t, []byte("N"))
			}
		case 4:
			if sec == 0 {
				verifAssume(false) // clearing the header removes 8/35: no longer a message the property speaks of
			}
			verifCase("clear")
			fm.Clear()
			model[sec].fields = nil
		}
	}
	out := m.build()
	verifObserveB("wire", out)
	c10Check(out, &model, "built")
	// parsing the bytes back yields the same fields and values
	p, err := verifParse(out)
	verifAssert(err == nil, "built-parses-back")
	if err == nil {
		for s := 0; s < 3; s++ {
			for _, f := range model[s].fields {
				var got FIXBytes
				var e MessageRejectError
				switch s {
				case 0:
					e = p.Header.GetField(Tag(f.tag), &got)
				case 1:
					e = p.Body.GetField(Tag(f.tag), &got)
				default:
					e = p.Trailer.GetField(Tag(f.tag), &got)
				}
				verifAssert(e == nil && verifBytesEq(got, f.val), "parsed-back-same-field")
			}
		}
	}
}

// c10Group: a repeating group set on the body together with scalar fields, then overwritten / removed.
func VerifHarness_C10_group() {
	m := NewMessage()
	m.Header.SetString(tagBeginString, "FIX.4.2")
	m.Header.SetString(tagMsgType, "D")
	const gTag, delim, member = 453, 448, 447
	if ndBool("same-counter-tag-used-with-another-template-before") {
		// elsewhere in the process (another FIX version, a customised dictionary) the same group is laid out differently
		other := NewRepeatingGroup(gTag, GroupTemplate{GroupElement(member), GroupElement(delim)})
		other.Add().SetString(member, "q")
	}
	mk := func(name string) (*RepeatingGroup, [][2][]byte) {
		g := NewRepeatingGroup(gTag, GroupTemplate{GroupElement(delim), GroupElement(member)})
		n := verifConc(ndInt(name+".entries", 1, 2))
		var want [][2][]byte
		for i := 0; i < n; i++ {
			e := g.Add()
			v := verifValue(name+".d", 1)
			e.SetBytes(delim, v)
			want = append(want, [2][]byte{verifItoa(delim), v})
			if ndBool(name + ".hasmember") {
				w := verifValue(name+".m", 1)
				e.SetBytes(member, w)
				want = append(want, [2][]byte{verifItoa(member), w})
			}
		}
		return g, want
	}
	g, want := mk("g1")
	m.Body.SetGroup(g)
	count := []byte{byte('0' + g.Len())}
	scalar := false
	var sval []byte
	switch verifConc(ndInt("then", 0, 3)) {
	case 0:
		verifCase("group-only")
	case 1:
		verifCase("group-replaced-by-group")
		g2, w2 := mk("g2")
		m.Body.SetGroup(g2)
		want, count = w2, []byte{byte('0' + g2.Len())}
	case 2:
		verifCase("group-overwritten-by-scalar")
		sval = verifValue("scalar", 1)
		m.Body.SetBytes(gTag, sval)
		scalar = true
		want = nil
	case 3:
		verifCase("group-removed")
		m.Body.Remove(gTag)
		want, count = nil, nil
	}
	out := m.build()
	fs := verifWellFormed(out, "group")
	if fs == nil {
		return
	}
	n, at := verifCount(fs, gTag)
	if count == nil && !scalar {
		verifAssert(n == 0, "group-removed-field-absent")
		verifAssert(len(fs) == 4, "group-nothing-else-on-the-wire")
		return
	}
	verifAssert(n == 1, "group-count-field-exactly-once")
	if n != 1 {
		return
	}
	if scalar {
		verifAssert(verifBytesEq(fs[at].val, sval), "group-latest-value")
		verifAssert(len(fs) == 5, "group-nothing-else-on-the-wire")
		return
	}
	verifAssert(verifBytesEq(fs[at].val, count), "group-count-value")
	verifAssert(len(fs) == 5+len(want), "group-nothing-else-on-the-wire")
	if len(fs) == 5+len(want) {
		for i, w := range want {
			f := fs[at+1+i]
			verifAssert(verifBytesEq(verifItoa(f.tag), w[0]) && verifBytesEq(f.val, w[1]), "group-entries-in-order")
		}
	}
}

// c10Copy: a copied message serialises identically to its source.
func VerifHarness_C10_copy() {
	m := NewMessage()
	m.Header.SetString(tagBeginString, "FIX.4.2")
	m.Header.SetString(tagMsgType, "D")
	m.Header.SetBytes(tagSenderCompID, verifValueN("sender", 1))
	b1 := c10BodyTag("btag1")
	m.Body.SetBytes(Tag(b1), verifValue("v1", 1+verifTier()))
	if verifTier() == 1 && ndBool("second") {
		m.Body.SetBytes(Tag(c10BodyTag("btag2")), verifValue("v2", 1))
	}
	withGroup := ndBool("with-group")
	if withGroup {
		verifCase("with-group")
		g := NewRepeatingGroup(453, GroupTemplate{GroupElement(448), GroupElement(447)})
		n := verifConc(ndInt("entries", 1, 2))
		for i := 0; i < n; i++ {
			e := g.Add()
			e.SetBytes(448, verifValue("d", 1))
		}
		m.Body.SetGroup(g)
	} else {
		verifCase("scalars")
	}
	if ndBool("sig") {
		m.Trailer.SetBytes(tagSignature, verifValue("sig", 1))
	}
	src := append([]byte{}, m.build()...)
	var dst *Message
	if ndBool("dirty-destination") {
		dst = NewMessage()
		dst.Header.SetString(tagTargetCompID, "X")
		dst.Body.SetString(Tag(58), "old")
		dst.Trailer.SetString(tagSignatureLength, "1")
	} else {
		dst = NewMessage()
	}
	m.CopyInto(dst)
	out := dst.build()
	verifAssert(verifBytesEq(out, src), "copy-serialises-identically")
	verifAssert(verifBytesEq(m.build(), src), "copy-leaves-source-unchanged")
}

func init() { verifRegister("C10_roundtrip", VerifHarness_C10_roundtrip) }

// C10_roundtrip: one body field of any shape (1-2 digit tag, value of 0..3 symbolic bytes that may contain '='):
// the built bytes parse back to the same field.
func VerifHarness_C10_roundtrip() {
	m := NewMessage()
	m.Header.SetString(tagBeginString, "FIX.4.2")
	m.Header.SetString(tagMsgType, "D")
	t := ndInt("tag", 1, 33)
	verifAssume(verifOr(verifAnd(t >= 1, t <= 7), verifAnd(t >= 11, t <= 33)))
	v := verifValue("val", 3)
	m.Body.SetBytes(Tag(t), v)
	out := m.build()
	p, err := verifParse(out)
	verifAssert(err == nil, "roundtrip-built-message-parses")
	if err == nil {
		var got FIXBytes
		verifAssert(p.Body.GetField(Tag(t), &got) == nil && verifBytesEq(got, v), "roundtrip-same-field")
	}
}

func init() { verifRegister("C10_rebuild", VerifHarness_C10_rebuild) }

// C10_rebuild: a message that has already been serialised once is modified (fields removed and set again, in every
// section, so that a section may hold the same number of fields as before) and serialised again: the second
// serialisation is as well-formed as the first and shows exactly the current fields.
func VerifHarness_C10_rebuild() {
	m := NewMessage()
	var model [3]c10Model
	m.Header.SetString(tagBeginString, "FIX.4.2")
	model[0].set(8, []byte("FIX.4.2"))
	m.Header.SetString(tagMsgType, "D")
	model[0].set(35, []byte("D"))
	b1 := c10BodyTag("btag1")
	b2 := 55
	if verifTier() == 1 {
		b2 = c10BodyTag("btag2")
	}
	slotSec := [4]int{0, 1, 1, 2}
	slotTag := [4]int{int(tagSenderCompID), b1, b2, int(tagSignatureLength)}
	for slot := 0; slot < 4; slot++ {
		if slot == 2 && !ndBool("second-body-tag-set") {
			continue
		}
		v := verifValueN("init", 1)
		c10Section(m, slotSec[slot]).SetBytes(Tag(slotTag[slot]), v)
		model[slotSec[slot]].set(slotTag[slot], v)
	}
	_ = m.build() // the first serialisation (what it looks like is C10_ops' subject)
	K := verifBound(2, 3)
	for k := 0; k < K; k++ {
		slot := verifConc(ndInt("slot", 0, 3))
		sec, t := slotSec[slot], slotTag[slot]
		fm := c10Section(m, sec)
		if ndBool("remove") {
			verifCase("remove")
			fm.Remove(Tag(t))
			model[sec].remove(t)
		} else {
			verifCase("set")
			v := verifValueN("val", 1)
			fm.SetBytes(Tag(t), v)
			model[sec].set(t, v)
		}
	}
	out := m.build()
	verifObserveB("wire", out)
	c10Check(out, &model, "rebuilt")
	_, err := verifParse(out)
	verifAssert(err == nil, "rebuilt-parses-back")
}
