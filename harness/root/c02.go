//go:build verif

package quickfix

import "time"

func init() {
	verifRegister("C02_seq", VerifHarness_C02_seq)
	verifRegister("C02_par", VerifHarness_C02_par)
}

// c02Spy wraps the real store and remembers, for every message put on the wire, whether the store already
// held exactly those bytes under the message's number at that moment (checked by the harness at drain time
// is too late: the wire is a channel, so the check is made inside the Log hook, which sendBytes calls right
// after the channel send while still holding sendMutex).
type c02Log struct {
	nullLog
	r         *verifRig
	notStored int
	sent      [][]byte
}

func (l *c02Log) OnOutgoing(b []byte) {
	l.sent = append(l.sent, b)
	fs, _ := verifScan(b)
	w := verifWire{raw: b, fs: fs}
	seq, ok := w.getInt(34)
	pd, has := w.get(43)
	if has && len(pd) == 1 && pd[0] == 'Y' {
		return // replays and gap fills are not first-time transmissions
	}
	if !ok || l.r.s.DisableMessagePersist {
		return
	}
	got, err := l.r.st.GetMessages(seq, seq)
	if err != nil || len(got) != 1 || !verifEqBytes(got[0], b) {
		l.notStored++
	}
}

func c02App(tag string) *Message {
	m := NewMessage()
	m.Header.SetString(tagMsgType, "D")
	m.Body.SetString(Tag(11), tag)
	return m
}

// c02CheckNumbering: the first-time messages on the wire carry N, N+1, ... in increasing order, each one is in
// the store under its number, and the store's next number is one past the highest handed out.
func c02CheckNumbering(r *verifRig, lg *c02Log, N, k int, pfx string) {
	next := N
	for _, b := range lg.sent {
		fs, _ := verifScan(b)
		w := verifWire{raw: b, fs: fs}
		pd, has := w.get(43)
		if has && len(pd) == 1 && pd[0] == 'Y' {
			continue
		}
		seq, ok := w.getInt(34)
		verifAssert(ok && seq == next, pfx+"-first-time-messages-consecutive-and-increasing")
		next++
	}
	verifAssert(next == N+k, pfx+"-every-assigned-number-transmitted")
	verifAssert(r.st.NextSenderMsgSeqNum() == N+k, pfx+"-store-next-number-one-past-highest")
	verifAssert(lg.notStored == 0, pfx+"-stored-no-later-than-sent")
	for q := N; q < N+k; q++ {
		if !r.s.DisableMessagePersist {
			got, err := r.st.GetMessages(q, q)
			verifAssert(err == nil && len(got) == 1, pfx+"-every-number-retrievable")
		}
	}
}

// C02_seq: one thread, all send entry points.
func VerifHarness_C02_seq() {
	r := verifNewSession(ndBool("initiator"), verifPickBeginString())
	lg := &c02Log{r: r}
	r.s.log = lg
	r.s.DisableMessagePersist = ndBool("DisableMessagePersist")
	N := ndInt("N", verifSeqLo(), 50)
	r.setCounters(5, N)
	r.verifLoggedOnState(stInSession, 5)
	r.app.toAppMayRefuse = true
	k := 0
	ops := verifBound(2, 3)
	for i := 0; i < ops; i++ {
		switch verifConc(ndInt("op", 0, 3)) {
		case 0:
			verifCase("queueForSend-then-flush")
			before := r.app.refusals
			r.s.queueForSend(c02App("Q"))
			r.pump()
			if r.app.refusals == before {
				k++
			}
		case 1:
			verifCase("send-application")
			before := r.app.refusals
			r.s.send(c02App("S"))
			if r.app.refusals == before {
				k++
			}
		case 2:
			verifCase("send-admin")
			hb := NewMessage()
			hb.Header.SetString(tagMsgType, "0")
			r.s.send(hb)
			k++
		case 3:
			verifCase("reply")
			tr := r.inbound("1", r.st.NextTargetMsgSeqNum())
			tr.Body.SetString(tagTestReqID, "X")
			r.s.fixMsgIn(r.s, tr)
			k++
		}
	}
	r.pump()
	c02CheckNumbering(r, lg, N, k, "seq")
	verifObserve("sent", len(lg.sent))
}

// C02_par: logical threads interleaved at every operation of the session's two mutexes.
func VerifHarness_C02_par() {
	r := verifNewSession(false, BeginStringFIX42)
	lg := &c02Log{r: r}
	r.s.log = lg
	r.setCounters(5, 1)
	r.verifLoggedOnState(stInSession, 5)
	// history: two application messages already sent (numbers 1, 2), so that a ResendRequest replays something
	r.s.send(c02App("H1"))
	r.s.send(c02App("H2"))
	N := 3
	if ndBool("history-ends-with-admin-message") {
		// the replay then ends with a closing gap fill
		hb := NewMessage()
		hb.Header.SetString(tagMsgType, "0")
		r.s.send(hb)
		N = 4
	}
	lg.sent = nil
	lg.notStored = 0
	r.drain()
	third := verifConc(ndInt("third-thread", 0, 2+verifTier()))
	k := 2
	threads := []func(){
		func() { r.s.queueForSend(c02App("A")) },
		func() { r.s.queueForSend(c02App("B")) },
	}
	switch third {
	case 1:
		verifCase("session-thread-flushes")
		threads = append(threads, func() { r.s.SendAppMessages(r.s) })
	case 2:
		verifCase("session-thread-answers-resendrequest")
		threads = append(threads, func() {
			req := r.inbound("2", 5)
			req.Body.SetInt(tagBeginSeqNo, 1)
			req.Body.SetInt(tagEndSeqNo, 0)
			r.s.fixMsgIn(r.s, req)
		})
	case 3:
		verifCase("session-thread-replies")
		k = 3
		threads = append(threads, func() {
			tr := r.inbound("1", 5)
			tr.Body.SetString(tagTestReqID, "X")
			r.s.fixMsgIn(r.s, tr)
		})
	default:
		verifCase("two-senders")
	}
	verifParallel(threads...)
	r.pump()
	r.s.SendAppMessages(r.s)
	c02CheckNumbering(r, lg, N, k, "par")
	// while a ResendRequest is being answered no first-time message goes out between the replayed ones
	firstPD, lastPD := -1, -1
	for i, b := range lg.sent {
		fs, _ := verifScan(b)
		w := verifWire{raw: b, fs: fs}
		if pd, has := w.get(43); has && len(pd) == 1 && pd[0] == 'Y' {
			if firstPD < 0 {
				firstPD = i
			}
			lastPD = i
		}
	}
	for i, b := range lg.sent {
		if i > firstPD && i < lastPD {
			fs, _ := verifScan(b)
			w := verifWire{raw: b, fs: fs}
			pd, has := w.get(43)
			verifAssert(has && len(pd) == 1 && pd[0] == 'Y', "par-no-first-time-message-inside-a-replay")
		}
	}
	if third == 2 {
		verifAssert(firstPD >= 0 && lastPD > firstPD, "par-both-history-messages-replayed")
	}
	verifObserve("sent", len(lg.sent))
}

func init() { verifRegister("C02_backpressure", VerifHarness_C02_backpressure) }

// C02_backpressure: the connection writer is slow (outbound channel of capacity 1..2), several messages are queued
// and flushed in steps: while the session stays logged on every assigned number is transmitted, in order.
func VerifHarness_C02_backpressure() {
	r := verifNewSession(false, BeginStringFIX42)
	lg := &c02Log{r: r}
	r.s.log = lg
	capacity := verifConc(ndInt("channel-capacity", 1, 2))
	out := make(chan []byte, capacity)
	r.out, r.s.messageOut = out, out
	N := ndInt("N", verifSeqLo(), 50)
	r.setCounters(5, N)
	r.verifLoggedOnState(stInSession, 5)
	k := verifConc(ndInt("queued", 2, 3+verifTier()))
	for i := 0; i < k; i++ {
		r.s.queueForSend(c02App("Q"))
	}
	var wire []verifWire
	for round := 0; round < k+1; round++ {
		r.s.SendAppMessages(r.s)
		wire = append(wire, r.drain()...)
	}
	verifAssert(len(wire) == k, "backpressure-every-assigned-number-transmitted")
	for i := range wire {
		verifAssert(wire[i].seq == N+i, "backpressure-in-increasing-order-without-holes")
	}
	verifAssert(len(r.s.toSend) == 0, "backpressure-queue-drained")
}

func init() { verifRegister("C02_reset", VerifHarness_C02_reset) }

// C02_reset: a Logon that carries ResetSeqNumFlag=Y restarts the numbering while it is being prepared (the store's next
// number is N > 1 at that moment): it goes out as number 1, is stored under 1, and the messages after it follow from 2.
// Two routes: the daily reset time passes while logged on (CheckResetTime), and an initiator whose application adds
// the flag to the Logon in ToAdmin.
func VerifHarness_C02_reset() {
	bs := BeginStringFIX42
	if verifTier() == 1 {
		bs = verifPickBeginString()
	}
	N := ndInt("N", 2, 50)
	var r *verifRig
	var lg *c02Log
	if ndBool("reset-time-passes-while-logged-on") {
		verifCase("reset-time")
		r = verifNewSession(ndBool("initiator"), bs)
		lg = &c02Log{r: r}
		r.s.log = lg
		r.setCounters(5, N)
		r.verifLoggedOnState(stInSession, 5)
		r.s.EnableResetSeqTime = true
		r.s.ResetSeqTime = time.Date(2024, time.January, 10, 12, 0, 0, 0, time.UTC)
		r.s.CheckResetTime(r.s, time.Date(2024, time.January, 10, 11, 59, 59, 0, time.UTC))
		r.s.CheckResetTime(r.s, time.Date(2024, time.January, 10, 12, 0, 1, 0, time.UTC))
	} else {
		verifCase("application-adds-the-flag")
		r = verifNewSession(true, bs)
		lg = &c02Log{r: r}
		r.s.log = lg
		r.setCounters(5, N)
		r.app.logonAsksReset = true
		r.s.State = latentState{}
		r.s.messageOut = nil
		r.out = make(chan []byte, 24)
		r.s.onAdmin(connect{messageOut: r.out})
	}
	r.pump()
	verifAssert(len(lg.sent) == 1, "reset-one-logon-sent")
	if len(lg.sent) != 1 {
		return
	}
	fs, _ := verifScan(lg.sent[0])
	w := verifWire{raw: lg.sent[0], fs: fs}
	mt, _ := w.get(35)
	fl, hasFl := w.get(141)
	verifAssert(len(mt) == 1 && mt[0] == 'A' && hasFl && len(fl) == 1 && fl[0] == 'Y', "reset-logon-carries-the-flag")
	k := 1
	if r.s.IsLoggedOn() {
		// a further message follows from 2
		hb := NewMessage()
		hb.Header.SetString(tagMsgType, "0")
		r.s.send(hb)
		k = 2
	}
	c02CheckNumbering(r, lg, 1, k, "reset")
}

func init() { verifRegister("C02_epoch", VerifHarness_C02_epoch) }

// C02_epoch: the application sends from its own goroutine while the session is reset from another (ResetSession on a
// logged-on session drops the send queue and starts the numbering again at 1). Whatever the interleaving - another
// thread may also run right after a mutex release here - the wire shows consecutive numbers with at most one restart
// at 1, the store's next number is one past the last number sent, and what was sent in the current epoch is stored.
func VerifHarness_C02_epoch() {
	verifPreemptAtRelease(1 + verifTier())
	r := verifNewSession(false, BeginStringFIX42)
	lg := &c02Log{r: r}
	r.s.log = lg
	N := ndInt("N", 20, 22) // one symbolic two-digit value: the interleaving carries the case analysis here
	r.setCounters(5, N)
	r.verifLoggedOnState(stInSession, 5)
	threads := []func(){
		func() { r.s.queueForSend(c02App("A")) },
		func() {
			// registry.ResetSession: a Logout goes out (ShutdownNow of a logged-on state), then the queue is dropped
			// and the store reset; the state is left as it was
			r.s.State.ShutdownNow(r.s)
			r.s.dropAndReset()
		},
	}
	if verifTier() == 1 && ndBool("second-sender") {
		threads = append(threads, func() { r.s.queueForSend(c02App("B")) })
	}
	verifParallel(threads...)
	r.pump()
	r.s.SendAppMessages(r.s)
	// the wire: consecutive numbers, at most one restart at 1
	restarts, prev := 0, 0
	for i, b := range lg.sent {
		fs, _ := verifScan(b)
		w := verifWire{raw: b, fs: fs}
		seq, ok := w.getInt(34)
		verifAssert(ok, "epoch-sent-message-numbered")
		if i > 0 && seq != prev+1 {
			verifAssert(seq == 1, "epoch-numbers-consecutive-or-restart-at-1")
			restarts++
		}
		if i == 0 {
			verifAssert(seq == N || seq == 1, "epoch-first-number-is-next-or-1")
		}
		prev = seq
	}
	verifAssert(restarts <= 1, "epoch-at-most-one-restart")
	// every message was in the store under its number at the moment it went out (a message numbered before the reset
	// must not go out after it)
	verifAssert(lg.notStored == 0, "epoch-stored-no-later-than-sent")
	next := r.st.NextSenderMsgSeqNum()
	if len(lg.sent) > 0 && (restarts == 1 || prev < N) {
		// something was sent in the new epoch: the store continues from it and holds it
		verifAssert(next == prev+1, "epoch-store-next-number-one-past-last-sent")
		got, err := r.st.GetMessages(prev, prev)
		verifAssert(err == nil && len(got) == 1 && verifEqBytes(got[0], lg.sent[len(lg.sent)-1]), "epoch-last-sent-message-is-stored")
	}
	verifObserve("sent", len(lg.sent))
}
