//go:build verif

package quickfix

func init() {
	verifRegister("C14_int_read", VerifHarness_C14_int_read)
	verifRegister("C14_bool", VerifHarness_C14_bool)
}

func verifBound(quick, thorough int) int {
	if verifTier() == 1 {
		return thorough
	}
	return quick
}

func verifIsDigit(c byte) bool { return c >= '0' && c <= '9' }

// C14: FIXInt.Read accepts exactly -?[0-9]+ and yields the decimal value (wrap-around outside 63 bits excluded).
func VerifHarness_C14_int_read() {
	n := verifConc(ndInt("len", 0, verifBound(8, 19)))
	b := ndBytes("b", n)
	// reference acceptance
	valid := n > 0
	digits := b
	neg := false
	if valid && b[0] == '-' {
		neg = true
		digits = b[1:]
		valid = len(digits) > 0
	}
	ref := 0
	if valid {
		for _, c := range digits {
			if !verifIsDigit(c) {
				valid = false
				break
			}
			ref = ref*10 + int(c-'0')
		}
	}
	if neg {
		ref = -ref
	}
	var f FIXInt
	err := f.Read(b)
	if valid {
		verifCase("valid")
		verifAssert(err == nil, "int-grammar-accepted")
		if err == nil && len(digits) <= 18 {
			verifAssert(f.Int() == ref, "int-value")
			verifObserve("value", f.Int())
		}
	} else {
		verifCase("invalid")
		verifAssert(err != nil, "int-nongrammar-rejected")
	}
}

func VerifHarness_C14_bool() {
	n := verifConc(ndInt("len", 0, 3))
	b := ndBytes("b", n)
	var f FIXBoolean
	err := f.Read(b)
	if n == 1 && (b[0] == 'Y' || b[0] == 'N') {
		verifAssert(err == nil, "bool-accepted")
		verifAssert(f.Bool() == (b[0] == 'Y'), "bool-value")
		w := f.Write()
		verifAssert(len(w) == 1 && w[0] == b[0], "bool-write-read-text")
	} else {
		verifAssert(err != nil, "bool-rejected")
	}
	v := ndBool("v")
	g := FIXBoolean(v)
	var h FIXBoolean
	verifAssert(h.Read(g.Write()) == nil && h.Bool() == v, "bool-read-write-value")
}
