//go:build verif

package quickfix

import "time"

func init() {
	verifRegister("C14_int_read", VerifHarness_C14_int_read)
	verifRegister("C14_bool", VerifHarness_C14_bool)
}

func verifBound(quick, thorough int) int {
	if verifTier() == 1 {
		return thorough
	}
	return quick
}

func verifIsDigit(c byte) bool { return c >= '0' && c <= '9' }

// C14: FIXInt.Read accepts exactly -?[0-9]+ and yields the decimal value (wrap-around outside 63 bits excluded).
func VerifHarness_C14_int_read() {
	n := verifConc(ndInt("len", 0, verifBound(8, 18)))
	b := ndBytes("b", n)
	// reference acceptance
	valid := n > 0
	digits := b
	neg := false
	if valid && b[0] == '-' {
		neg = true
		digits = b[1:]
		valid = len(digits) > 0
	}
	ref := 0
	if valid {
		for _, c := range digits {
			if !verifIsDigit(c) {
				valid = false
				break
			}
			ref = ref*10 + int(c-'0')
		}
	}
	if neg {
		ref = -ref
	}
	var f FIXInt
	err := f.Read(b)
	if valid {
		verifCase("valid")
		verifAssert(err == nil, "int-grammar-accepted")
		if err == nil && len(digits) <= 18 {
			verifAssert(f.Int() == ref, "int-value")
			verifObserve("value", f.Int())
		}
	} else {
		verifCase("invalid")
		verifAssert(err != nil, "int-nongrammar-rejected")
	}
}

func VerifHarness_C14_bool() {
	n := verifConc(ndInt("len", 0, 3))
	b := ndBytes("b", n)
	var f FIXBoolean
	err := f.Read(b)
	if n == 1 && (b[0] == 'Y' || b[0] == 'N') {
		verifAssert(err == nil, "bool-accepted")
		verifAssert(f.Bool() == (b[0] == 'Y'), "bool-value")
		w := f.Write()
		verifAssert(len(w) == 1 && w[0] == b[0], "bool-write-read-text")
	} else {
		verifAssert(err != nil, "bool-rejected")
	}
	v := ndBool("v")
	g := FIXBoolean(v)
	var h FIXBoolean
	verifAssert(h.Read(g.Write()) == nil && h.Bool() == v, "bool-read-write-value")
}

func init() {
	verifRegister("C14_float", VerifHarness_C14_float)
	verifRegister("C14_string", VerifHarness_C14_string)
	verifRegister("C14_timestamp", VerifHarness_C14_timestamp)
	verifRegister("C14_int_write", VerifHarness_C14_int_write)
}

// C14_float: FIXFloat.Read accepts -?d+(.d*)? and rejects everything outside -?(d+(.d*)?|.d+)
// (texts like ".5" on which FIX is silent may go either way). strconv.ParseFloat is replaced by its
// acceptance model (engine stub), the whitelist loop of FIXFloat.Read runs on top of it.
func VerifHarness_C14_float() {
	n := verifConc(ndInt("len", 0, verifBound(5, 7)))
	b := ndBytes("b", n)
	for _, c := range b {
		verifAssume(verifOr(verifAnd(c >= '0', c <= '9'), verifOr(c == '.', verifOr(c == '-', verifOr(c == '+', verifOr(c == 'e', verifOr(c == 'E', c == ' ')))))))
	}
	i := 0
	if i < n && b[i] == '-' {
		i++
	}
	nInt := 0
	for i < n && verifIsDigit(b[i]) {
		i++
		nInt++
	}
	nFrac, dot := 0, false
	if i < n && b[i] == '.' {
		dot = true
		i++
		for i < n && verifIsDigit(b[i]) {
			i++
			nFrac++
		}
	}
	inGrammar := i == n && (nInt > 0 || (dot && nFrac > 0))
	var f FIXFloat
	err := f.Read(b)
	if inGrammar && nInt > 0 {
		verifCase("fix-float")
		verifAssert(err == nil, "float-grammar-accepted")
	} else if !inGrammar {
		verifCase("not-a-fix-float")
		verifAssert(err != nil, "float-nongrammar-rejected")
	} else {
		verifCase("leading-dot-dont-care")
	}
}

// C14_string: string and bytes values are the identity in both directions.
func VerifHarness_C14_string() {
	n := verifConc(ndInt("len", 0, verifBound(4, 8)))
	b := ndBytes("b", n)
	var s FIXString
	var y FIXBytes
	verifAssert(s.Read(b) == nil && y.Read(b) == nil, "string-bytes-always-accepted")
	verifAssert(verifEqBytes(s.Write(), b) && verifEqBytes(y.Write(), b), "string-bytes-write-read-identity")
	verifAssert(verifEqBytes([]byte(s.String()), b), "string-value-identity")
}

// C14_int_write: Read(Write(v)) = v for every int (digit contract of strconv.AppendInt), and the text is canonical.
func VerifHarness_C14_int_write() {
	v := ndInt("v", -999999999999, 999999999999)
	w := FIXInt(v).Write()
	var f FIXInt
	verifAssert(f.Read(w) == nil && f.Int() == v, "int-read-write-value")
	verifAssert(len(w) >= 1 && (len(w) == 1 || w[0] != '0') && !(len(w) >= 2 && w[0] == '-' && w[1] == '0'), "int-text-canonical")
}

// C14_timestamp: Read dispatches on the length to the layout Write uses for the same precision.
func VerifHarness_C14_timestamp() {
	base := time.Date(2024, time.March, 9, 7, 5, 3, 123456789, time.UTC)
	p := TimestampPrecision(verifConc(ndInt("precision", 0, 3)))
	val := base
	if ndBool("value-held-in-another-zone") {
		val = base.In(time.FixedZone("P530", 5*3600+1800)) // the same instant; the text written is UTC all the same
	}
	w := FIXUTCTimestamp{Time: val, Precision: p}.Write()
	verifAssert(verifEqBytes(w[:17], []byte("20240309-07:05:03")), "timestamp-written-in-utc")
	wantLen := map[TimestampPrecision]int{Seconds: 17, Millis: 21, Micros: 24, Nanos: 27}[p]
	verifAssert(len(w) == wantLen, "timestamp-text-length-per-precision")
	// the receiving value may have been used before, for a timestamp of any precision
	var r FIXUTCTimestamp
	if ndBool("read-into-a-used-value") {
		r = FIXUTCTimestamp{Time: base.Add(-time.Hour), Precision: TimestampPrecision(verifConc(ndInt("previous-precision", 0, 3)))}
	}
	verifAssert(r.Read(w) == nil && r.Precision == p, "timestamp-read-recovers-precision")
	trunc := map[TimestampPrecision]time.Duration{Seconds: time.Second, Millis: time.Millisecond, Micros: time.Microsecond, Nanos: time.Nanosecond}[p]
	verifAssert(r.Time.Equal(base.Truncate(trunc)), "timestamp-value-truncated-to-precision")
	verifAssert(verifEqBytes(r.Write(), w), "timestamp-write-read-text")
	// near misses of the right length: a field one digit short with the fraction one digit long, or a wrong separator
	if ndBool("near-miss") {
		verifCase("near-miss")
		nm := append([]byte{}, w...)
		switch k := verifConc(ndInt("near-miss-kind", 0, 7)); {
		case k <= 4 && p != Seconds:
			at := []int{4, 6, 9, 12, 15}[k] // first digit of month, day, hour, minute, second
			nm = append(append(append([]byte{}, w[:at]...), w[at+1:]...), '0')
		case k <= 4:
			nm[[]int{4, 6, 9, 12, 15}[k]] = ' '
		case k == 5:
			nm[8] = ' '
		case k == 6:
			nm[11] = '.'
		default:
			nm[14] = '-'
		}
		var x FIXUTCTimestamp
		verifAssert(x.Read(nm) != nil, "timestamp-near-miss-rejected")
		return
	}
	// a text of any other length is rejected whatever it contains
	n := verifConc(ndInt("otherlen", 15, 28))
	if n != 17 && n != 21 && n != 24 && n != 27 {
		var x FIXUTCTimestamp
		verifAssert(x.Read(ndBytes("junk", n)) != nil, "timestamp-wrong-length-rejected")
	}
}

func init() {
	verifRegister("C14_float_whole", VerifHarness_C14_float_whole)
	verifRegister("C14_float_big", VerifHarness_C14_float_big)
	verifRegister("C14_float_write", VerifHarness_C14_float_write)
}

func c14AssumeDigits(b []byte) {
	for _, c := range b {
		verifAssume(verifAnd(c >= '0', c <= '9'))
	}
}

// C14_float_whole: a canonical whole-number text (optional '-', up to 15 digits, no leading zero) is read as exactly
// that number and written back as exactly that text.
func VerifHarness_C14_float_whole() {
	n := verifConc(ndInt("digits", 1, verifBound(9, 15)))
	d := ndBytes("d", n)
	c14AssumeDigits(d)
	verifAssume(verifOr(n == 1, d[0] != '0'))
	neg := ndBool("negative")
	text := d
	if neg {
		verifAssume(verifOr(n > 1, d[0] != '0'))
		text = append([]byte{'-'}, d...)
	}
	ref := 0
	for _, c := range d {
		ref = ref*10 + (int(c) - '0')
	}
	if neg {
		ref = -ref
	}
	var f FIXFloat
	err := f.Read(text)
	verifAssert(err == nil, "float-whole-number-accepted")
	if err != nil {
		return
	}
	verifAssert(f.Float64() == float64(ref), "float-whole-number-value")
	verifAssert(verifEqBytes(f.Write(), text), "float-read-write-text")
}

// C14_float_big: all-digit texts of 16 to 19 (20) digits - around the limits of int64 - are floats too: accepted, and
// never read as a negative number.
func VerifHarness_C14_float_big() {
	n := verifConc(ndInt("digits", 16, 19+verifTier()))
	d := ndBytes("d", n)
	c14AssumeDigits(d)
	// the writer on the same ground: whole numbers between 2^63 and 10^19 (concrete: no float theory) come back as
	// themselves
	for _, x := range []float64{9223372036854775808, 9.3e18, 9.99e18, 1.2e19} {
		var g FIXFloat
		verifAssert(g.Read(FIXFloat(x).Write()) == nil && g.Float64() == x, "float-large-whole-number-write-read-value")
	}
	var f FIXFloat
	err := f.Read(d)
	verifAssert(err == nil, "float-long-whole-number-accepted")
	if err != nil {
		return
	}
	verifAssert(!(f.Float64() < 0), "float-unsigned-text-not-negative")
}

// C14_float_write: every whole number of up to 15 digits (below 2^53) written as a float reads back as the same value.
func VerifHarness_C14_float_write() {
	v := ndInt("v", -999999999999999, 999999999999999)
	w := FIXFloat(float64(v)).Write()
	var f FIXFloat
	verifAssert(f.Read(w) == nil && f.Float64() == float64(v), "float-write-read-value")
}

func init() { verifRegister("C14_int_big", VerifHarness_C14_int_big) }

// C14_int_big: digit strings around the two places where 64-bit arithmetic wraps - 2^63 (19 digits) and 2^64 (20
// digits) - with the trailing 3 (4) digits symbolic and an optional '-', bit-vector encoding: the reader either
// reports an error or returns the number the text denotes, never a wrapped-around value.
func VerifHarness_C14_int_big() {
	prefix, tail := "9223372036854775", 3 // 2^63 = 9223372036854775808
	if ndBool("around-2^64") {
		prefix, tail = "1844674407370955", 4 // 2^64 = 18446744073709551616
	}
	t := ndBytes("tail", tail)
	c14AssumeDigits(t)
	d := append([]byte(prefix), t...)
	neg := ndBool("negative")
	text := d
	if neg {
		text = append([]byte{'-'}, d...)
	}
	// the number written, relative to the prefix: tailValue in 0..9999
	tv := 0
	for _, c := range t {
		tv = tv*10 + (int(c) - '0')
	}
	var f FIXInt
	err := f.Read(text)
	fits := len(d) == 19 && (tv <= 807 || (neg && tv == 808))
	if fits {
		verifCase("fits")
		verifAssert(err == nil, "int-in-range-accepted")
		if err == nil {
			want := 9223372036854775000 + tv // for tv == 808 this wraps to MinInt64, which is what -2^63 is
			if neg {
				want = -want
			}
			verifAssert(f.Int() == want, "int-value-is-the-number-written")
		}
	} else {
		verifCase("out-of-range")
		verifAssert(err != nil, "int-out-of-range-rejected-not-wrapped")
	}
}
