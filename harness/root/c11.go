//go:build verif

package quickfix

import (
	"bytes"

	"github.com/quickfixgo/quickfix/datadictionary"
)

func init() {
	verifRegister("C11_wf", VerifHarness_C11_wf)
	verifRegister("C11_field", VerifHarness_C11_field)
	verifRegister("C11_xml", VerifHarness_C11_xml)
	verifRegister("C11_bad_length", VerifHarness_C11_bad_length)
	verifRegister("C11_bad_order", VerifHarness_C11_bad_order)
}

// independent statement of which tags FIX places in the standard header / trailer
var c11HeaderTags = []int{8, 9, 35, 49, 56, 115, 128, 90, 91, 34, 50, 142, 57, 143, 116, 144, 129, 145, 43, 97, 52, 122,
	212, 213, 347, 369, 370, 1128, 1129, 1156, 627, 628, 629, 630}
var c11TrailerTags = []int{93, 89, 10}

func c11In(t int, set []int) bool {
	r := false
	for _, x := range set {
		r = verifOr(r, t == x)
	}
	return r
}

// c11Tag: a symbolic tag with exactly n decimal digits (no leading zero); returns value and text.
func c11Tag(name string, n int) (int, []byte) {
	txt := make([]byte, n)
	v := 0
	for i := 0; i < n; i++ {
		lo := 0
		if i == 0 {
			lo = 1
		}
		d := ndInt(name+".digit", lo, 9)
		txt[i] = byte('0' + d)
		v = v*10 + d
	}
	return v, txt
}

type c11Field struct {
	tag int
	val []byte
}

// c11Message frames fields as 8=FIX.4.2|9=<len>|35=D|fields...|10=ddd| with the BodyLength the definition gives.
// c11CheckSumWidth: digits of the CheckSum value in the messages c11Message builds (3 on every real message; the
// BodyLength rule must not depend on it).
var c11CheckSumWidth = 3

func c11Message(fields [][]byte, lenText []byte) []byte {
	body := []byte("35=D\x01")
	for _, f := range fields {
		body = append(body, f...)
	}
	b := []byte("8=FIX.4.2\x01")
	if lenText == nil {
		lenText = verifItoa(len(body))
	}
	b = verifFieldText(b, []byte("9"), lenText)
	b = append(b, body...)
	cs := ndBytes("cksum", c11CheckSumWidth)
	for _, c := range cs {
		verifAssume(c >= '0' && c <= '9')
	}
	return verifFieldText(b, []byte("10"), cs)
}

func verifFieldText(b, tag, val []byte) []byte {
	b = append(b, tag...)
	b = append(b, '=')
	b = append(b, val...)
	return append(b, verifSOH)
}

func c11Dicts() (*datadictionary.DataDictionary, *datadictionary.DataDictionary, []int, []int) {
	switch verifConc(ndInt("dicts", 0, 2)) {
	case 0:
		verifCase("no-dictionary")
		return nil, nil, nil, nil
	case 1:
		verifCase("app-dictionary")
		return nil, c11AppDict(), nil, nil
	}
	verifCase("transport+app-dictionary")
	// transport dictionary declares one extra header field (77) and one extra trailer field (78)
	ft := func(tag int) *datadictionary.FieldDef {
		return datadictionary.NewFieldDef(datadictionary.NewFieldType("F", tag, "STRING"), false)
	}
	td := &datadictionary.DataDictionary{
		Header:  datadictionary.NewMessageDef("Header", "", []datadictionary.MessagePart{ft(8), ft(9), ft(35), ft(77)}),
		Trailer: datadictionary.NewMessageDef("Trailer", "", []datadictionary.MessagePart{ft(78), ft(10)}),
	}
	return td, c11AppDict(), []int{77}, []int{78}
}

func c11AppDict() *datadictionary.DataDictionary {
	ft := func(tag int) *datadictionary.FieldDef {
		return datadictionary.NewFieldDef(datadictionary.NewFieldType("F", tag, "STRING"), false)
	}
	grp := datadictionary.NewGroupFieldDef(datadictionary.NewFieldType("NoX", 73, "NUMINGROUP"), false,
		[]datadictionary.MessagePart{ft(11), ft(12)})
	return &datadictionary.DataDictionary{
		Messages: map[string]*datadictionary.MessageDef{"D": datadictionary.NewMessageDef("D", "D", []datadictionary.MessagePart{ft(58), grp})},
	}
}

func c11CheckFields(m *Message, fs []c11Field, extraH, extraT []int, skipGroupTag int) {
	for _, f := range fs {
		if f.tag == skipGroupTag {
			continue
		}
		isH := verifOr(c11In(f.tag, c11HeaderTags), c11In(f.tag, extraH))
		isT := verifOr(c11In(f.tag, c11TrailerTags), c11In(f.tag, extraT))
		var got FIXBytes
		switch {
		case isH:
			verifAssert(m.Header.GetField(Tag(f.tag), &got) == nil && verifBytesEq(got, f.val), "field-in-its-section-with-wire-value")
			verifAssert(!m.Body.Has(Tag(f.tag)) && !m.Trailer.Has(Tag(f.tag)), "field-only-in-its-section")
		case isT:
			verifAssert(m.Trailer.GetField(Tag(f.tag), &got) == nil && verifBytesEq(got, f.val), "field-in-its-section-with-wire-value")
			verifAssert(!m.Body.Has(Tag(f.tag)) && !m.Header.Has(Tag(f.tag)), "field-only-in-its-section")
		default:
			verifAssert(m.Body.GetField(Tag(f.tag), &got) == nil && verifBytesEq(got, f.val), "field-in-its-section-with-wire-value")
			verifAssert(!m.Header.Has(Tag(f.tag)) && !m.Trailer.Has(Tag(f.tag)), "field-only-in-its-section")
		}
	}
}

// C11_wf: F free fields, two-digit symbolic tags, one-byte symbolic values (may be '='), any section mix.
func VerifHarness_C11_wf() {
	F := verifBound(2, 3)
	td, ad, xh, xt := c11Dicts()
	var fs []c11Field
	var raw [][]byte
	for i := 0; i < F; i++ {
		t, txt := c11Tag("tag", 2)
		verifAssume(t != 10 && t != 35)
		if ad != nil {
			verifAssume(t != 73) // the group counter of the synthetic dictionary: groups are C13's subject
		}
		for _, p := range fs {
			verifAssume(t != p.tag)
		}
		v := verifValueN("val", 1)
		fs = append(fs, c11Field{t, v})
		raw = append(raw, verifFieldText(nil, txt, v))
	}
	msg := c11Message(raw, nil)
	m := NewMessage()
	// the Message may have been used for an earlier message (the resend loop parses every stored message into one
	// Message): nothing of that one may show through
	old := []int{50, 58, 1, 93, 89}
	reused := ndBool("parsed-into-a-used-message")
	if reused {
		verifCase("message-reused")
		prev := c11Message([][]byte{[]byte("50=S\x01"), []byte("1=acc\x01"), []byte("58=old\x01"), []byte("93=4\x01"), []byte("89=ABCD\x01")}, nil)
		verifAssume(ParseMessageWithDataDictionary(m, bytes.NewBuffer(prev), td, ad) == nil)
	}
	err := ParseMessageWithDataDictionary(m, bytes.NewBuffer(msg), td, ad)
	verifAssert(err == nil, "well-formed-message-parses")
	if err != nil {
		return
	}
	c11CheckFields(m, fs, xh, xt, -1)
	if reused {
		for _, t := range old {
			onWire := false
			for _, f := range fs {
				if f.tag == t {
					onWire = true
				}
			}
			if !onWire {
				verifAssert(!m.Header.Has(Tag(t)) && !m.Body.Has(Tag(t)) && !m.Trailer.Has(Tag(t)), "nothing-exposed-that-is-not-on-the-wire")
			}
		}
	}
	// wire order kept for validation
	verifAssert(len(m.fields) == 4+F, "fields-list-complete")
	if len(m.fields) >= 4+F {
		for i, f := range fs {
			verifAssert(int(m.fields[3+i].tag) == f.tag && verifBytesEq(m.fields[3+i].value, f.val), "fields-list-in-wire-order")
		}
	}
	verifAssert(verifBytesEq(m.Bytes(), msg), "raw-bytes-unchanged")
	var bs FIXBytes
	verifAssert(m.Header.GetField(tagBeginString, &bs) == nil && string(bs) == "FIX.4.2", "beginstring-exposed")
	verifObserve("nfields", len(m.fields))
}

// C11_field: one free field of every shape (1-5 digit tag, 0-3 byte value) between fixed neighbours.
func VerifHarness_C11_field() {
	nd := verifConc(ndInt("tagdigits", 1, 5))
	t, txt := c11Tag("tag", nd)
	verifAssume(t != 8 && t != 9 && t != 10 && t != 35 && t != 212 && t != 213)
	v := verifValue("val", 3)
	fs := []c11Field{{t, v}, {58, []byte("x")}}
	raw := [][]byte{verifFieldText(nil, txt, v), []byte("58=x\x01")}
	if ndBool("free-field-last") {
		fs[0], fs[1] = fs[1], fs[0]
		raw[0], raw[1] = raw[1], raw[0]
	}
	verifAssume(t != 58)
	msg := c11Message(raw, nil)
	m := NewMessage()
	err := ParseMessage(m, bytes.NewBuffer(msg))
	verifAssert(err == nil, "well-formed-message-parses")
	if err != nil {
		return
	}
	c11CheckFields(m, fs, nil, nil, -1)
	verifAssert(len(m.fields) == 6, "fields-list-complete")
}

// C11_xml: XMLData carried with its length may contain SOH and '='.
func VerifHarness_C11_xml() {
	n := verifConc(ndInt("xmllen", 1, 3))
	data := ndBytes("xml", n)
	raw := [][]byte{verifFieldText(nil, []byte("212"), verifItoa(n)), verifFieldText(nil, []byte("213"), data), []byte("58=x\x01")}
	var ad *datadictionary.DataDictionary
	if ndBool("xmldata-right-after-a-repeating-group") {
		// XMLDataLen/XMLData are header fields wherever they stand: here directly behind the last member of a group the
		// application dictionary knows
		verifCase("after-group")
		ad = c11AppDict()
		raw = append([][]byte{[]byte("73=1\x01"), []byte("11=a\x01")}, raw...)
	}
	msg := c11Message(raw, nil)
	m := NewMessage()
	err := ParseMessageWithDataDictionary(m, bytes.NewBuffer(msg), nil, ad)
	verifAssert(err == nil, "xml-message-parses")
	if err != nil {
		return
	}
	var got FIXBytes
	verifAssert(m.Header.GetField(tagXMLData, &got) == nil && verifBytesEq(got, data), "xmldata-exposed-verbatim")
	verifAssert(m.Body.GetField(Tag(58), &got) == nil && string(got) == "x", "field-after-xmldata-exposed")
}

// C11_bad_length: BodyLength disagreeing with the content is rejected.
func VerifHarness_C11_bad_length() {
	t, txt := c11Tag("tag", 2)
	verifAssume(t != 10 && t != 35 && !c11In(t, c11HeaderTags))
	v := verifValue("val", 2)
	raw := [][]byte{verifFieldText(nil, txt, v)}
	correct := 5 + len(raw[0])
	nd := verifConc(ndInt("lendigits", 1, 3))
	claimed, ltxt := c11Tag("len", nd)
	verifAssume(claimed != correct)
	// whatever the trailer looks like: the count runs up to the CheckSum field, not across it
	c11CheckSumWidth = verifConc(ndInt("checksum-digits", 1, 4))
	msg := c11Message(raw, ltxt)
	c11CheckSumWidth = 3
	m := NewMessage()
	err := ParseMessage(m, bytes.NewBuffer(msg))
	verifAssert(err != nil, "wrong-bodylength-rejected")
}

// C11_bad_order: the first three fields must be 8, 9, 35 in that order.
func VerifHarness_C11_bad_order() {
	var b []byte
	var tags [3]int
	for i := 0; i < 3; i++ {
		nd := verifConc(ndInt("tagdigits", 1, 2))
		t, txt := c11Tag("tag", nd)
		tags[i] = t
		var v []byte
		switch {
		case i == 0:
			v = []byte("FIX.4.2")
		case i == 1:
			v = []byte("12")
		default:
			v = []byte("D")
		}
		b = verifFieldText(b, txt, v)
	}
	verifAssume(!verifAnd(tags[0] == 8, verifAnd(tags[1] == 9, tags[2] == 35)))
	b = append(b, []byte("58=abc\x0110=000\x01")...)
	m := NewMessage()
	err := ParseMessage(m, bytes.NewBuffer(b))
	verifAssert(err != nil, "wrong-leading-fields-rejected")
}
