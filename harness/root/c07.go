//go:build verif

package quickfix

import (
	"time"

	"github.com/quickfixgo/quickfix/internal"
)

func init() {
	verifRegister("C07_seqreset", VerifHarness_C07_seqreset)
	verifRegister("C07_logon", VerifHarness_C07_logon)
	verifRegister("C07_out", VerifHarness_C07_out)
	verifRegister("C07_continuity", VerifHarness_C07_continuity)
}

// C07_seqreset: SequenceReset can only move the expected inbound number forward.
func VerifHarness_C07_seqreset() {
	r := verifNewSession(ndBool("initiator"), verifPickBeginString())
	T := ndInt("T", 1, 60)
	N := ndInt("N", 1, 9)
	r.setCounters(T, N)
	r.s.State = inSession{}
	r.app.inLogon = true
	S := ndInt("S", 1, 70)
	m := r.inbound("4", S)
	newSeq := ndInt("NewSeqNo", 0, 80)
	m.Body.SetInt(tagNewSeqNo, newSeq)
	gapFill := ndBool("gapfill")
	if gapFill {
		m.Body.SetBool(tagGapFillFlag, true)
		if ndBool("possdup") {
			verifPossDup(m)
		}
	}
	r.s.fixMsgIn(r.s, m)
	r.pump()
	T1 := r.st.NextTargetMsgSeqNum()
	ws := r.drain()
	verifAssert(T1 >= T, "seqreset-never-moves-backwards")
	accepted := len(r.app.fromAdmin) == 1
	if !gapFill || S == T {
		verifCase("processed")
		verifAssert(accepted, "seqreset-in-sequence-or-reset-mode-reaches-admin-callback")
		switch {
		case newSeq > T:
			verifAssert(T1 == newSeq, "seqreset-forward-sets-expected")
			verifAssert(verifCountType(ws, "3") == 0, "seqreset-forward-not-rejected")
		case newSeq == T:
			verifAssert(T1 == T, "seqreset-same-changes-nothing")
		default:
			verifAssert(T1 == T, "seqreset-lower-changes-nothing")
			verifAssert(verifCountType(ws, "3") == 1, "seqreset-lower-rejected")
			if len(ws) > 0 && ws[0].is("3") {
				ref, ok := ws[0].getInt(45)
				verifAssert(ok && ref == S, "reject-quotes-msgseqnum")
			}
		}
		verifAssert(verifStateKind(r.s.State) == stInSession, "seqreset-stays-in-session")
	} else if S > T {
		verifCase("gapfill-too-high")
		verifAssert(!accepted && T1 == T, "gapfill-too-high-not-applied")
		verifAssert(verifCountType(ws, "2") == 1 && verifStateKind(r.s.State) == stResend, "gapfill-too-high-requests-resend")
	} else {
		verifCase("gapfill-too-low")
		verifAssert(!accepted && T1 == T, "gapfill-too-low-not-applied")
	}
	verifObserve("T1", T1)
}

// C07_logon: a Logon with ResetSeqNumFlag=Y (received or configured) leaves both sides numbering from 1.
func VerifHarness_C07_logon() {
	bs := verifPickBeginString()
	initiator := ndBool("initiator")
	r := verifNewSession(initiator, bs)
	r.s.ResetOnLogon = ndBool("ResetOnLogon")
	r.s.ResetOnLogout = ndBool("ResetOnLogout")
	r.s.ResetOnDisconnect = ndBool("ResetOnDisconnect")
	r.s.RefreshOnLogon = ndBool("RefreshOnLogon")
	T := ndInt("T", 1, 40)
	N := ndInt("N", 1, 40)
	r.setCounters(T, N)
	r.st.SaveMessage(1, []byte("old"))
	// the connection is established through the admin request, as the acceptor/initiator do; a previous connection
	// may have ended after our reset Logon went out and before any reply (sentReset still set at that moment)
	r.s.State = latentState{}
	r.s.messageOut = nil
	r.s.sentReset = ndBool("previous-connection-ended-after-our-reset-logon")
	r.s.onAdmin(connect{messageOut: r.out})
	verifAssume(verifStateKind(r.s.State) == stLogon)
	first := r.drain()
	sentResetOnOurLogon := false
	if initiator {
		verifAssert(len(first) == 1 && first[0].is("A"), "initiator-sends-logon-first")
		if len(first) == 1 {
			f, ok := first[0].get(141)
			sentResetOnOurLogon = ok && len(f) == 1 && f[0] == 'Y'
			if r.s.ResetOnLogon {
				verifAssert(sentResetOnOurLogon && first[0].seq == 1, "resetonlogon-initiator-logon-is-number-1-with-flag")
			}
		}
	}
	T0, N0 := r.st.NextTargetMsgSeqNum(), r.st.NextSenderMsgSeqNum()
	// the peer's Logon
	S := ndInt("S", 1, 45)
	m := r.inbound("A", S)
	flag := verifConc(ndInt("141", 0, 2)) // absent, Y, N
	switch flag {
	case 1:
		m.Body.SetBool(tagResetSeqNumFlag, true)
	case 2:
		m.Body.SetBool(tagResetSeqNumFlag, false)
	}
	if initiator && sentResetOnOurLogon {
		// the acceptor answers a reset Logon with a reset Logon numbered 1
		verifAssume(flag == 1 && S == 1)
	}
	r.s.fixMsgIn(r.s, m)
	r.pump()
	ws := r.drain()
	T1, N1 := r.st.NextTargetMsgSeqNum(), r.st.NextSenderMsgSeqNum()
	reset := flag == 1 && !sentResetOnOurLogon || (!initiator && r.s.ResetOnLogon)
	loggedOn := verifStateKind(r.s.State) == stInSession || verifStateKind(r.s.State) == stResend
	if reset && !initiator {
		verifCase("acceptor-reset")
		if S == 1 {
			verifAssert(loggedOn, "reset-logon-accepted")
			verifAssert(len(ws) >= 1 && ws[0].is("A") && ws[0].seq == 1, "reset-reply-logon-is-number-1")
			if len(ws) >= 1 && ws[0].is("A") && flag == 1 {
				f, ok := ws[0].get(141)
				verifAssert(ok && len(f) == 1 && f[0] == 'Y', "reset-reply-echoes-flag")
			}
			verifAssert(T1 == 2 && N1 == 2, "reset-both-counters-continue-from-2")
			msgs, _ := r.st.GetMessages(1, 1)
			verifAssert(len(msgs) == 1 && len(ws) >= 1 && verifBytesEq(msgs[0], ws[0].raw), "reset-forgets-old-messages")
		}
	} else if reset && initiator {
		verifCase("initiator-peer-requested-reset")
		if S == 1 {
			verifAssert(T1 == 2, "reset-expected-inbound-continues-from-2")
		}
	} else if loggedOn && S == T0 {
		verifCase("no-reset")
		verifAssert(T1 == T0+1, "no-reset-inbound-advances-by-one")
		if initiator {
			verifAssert(N1 == N0, "no-reset-initiator-outbound-unchanged-by-reply")
		} else {
			verifAssert(N1 == N0+1 && len(ws) >= 1 && ws[0].is("A") && ws[0].seq == N0, "no-reset-acceptor-logon-takes-next-number")
		}
	} else {
		verifCase("other")
	}
	if initiator && sentResetOnOurLogon && loggedOn {
		verifAssert(T1 == 2 && N1 == 2, "our-reset-echo-does-not-reset-twice")
	}
	verifObserve("T1", T1)
	verifObserve("N1", N1)
}

// C07_out: ResetOnLogout / ResetOnDisconnect return both counters to 1 exactly at logout / disconnect.
func VerifHarness_C07_out() {
	r := verifNewSession(ndBool("initiator"), verifPickBeginString())
	r.s.ResetOnLogout = ndBool("ResetOnLogout")
	r.s.ResetOnDisconnect = ndBool("ResetOnDisconnect")
	T := ndInt("T", 1, 40)
	N := ndInt("N", 1, 40)
	r.setCounters(T, N)
	r.st.SaveMessage(1, []byte("old"))
	r.app.inLogon = true
	if ndBool("event-is-logout") {
		verifCase("logout-received")
		switch verifConc(ndInt("state-at-logout", 0, 3)) {
		case 0:
			r.s.State = logoutState{}
		case 1:
			r.s.State = inSession{}
		case 2:
			r.s.State = resendState{resendRangeEnd: T + 2}
		case 3:
			r.s.State = pendingTimeout{inSession{}}
		}
		// the Logout's own number: in sequence, behind or ahead of the expected one - the reset options apply regardless
		S := ndInt("S", 1, 45)
		r.s.fixMsgIn(r.s, r.inbound("5", S))
		T1, N1 := r.st.NextTargetMsgSeqNum(), r.st.NextSenderMsgSeqNum()
		if r.s.ResetOnLogout || r.s.ResetOnDisconnect {
			verifAssert(T1 == 1 && N1 == 1, "reset-option-counters-back-to-1")
			msgs, _ := r.st.GetMessages(1, 1)
			verifAssert(len(msgs) == 0, "reset-option-forgets-messages")
		} else {
			if S == T {
				verifAssert(T1 == T+1, "no-option-logout-consumes-its-number")
			} else {
				verifAssert(T1 == T, "no-option-out-of-sequence-logout-consumes-nothing")
			}
			verifAssert(N1 == N || N1 == N+1, "no-option-outbound-at-most-the-logout-reply")
			msgs, _ := r.st.GetMessages(1, 1)
			verifAssert(len(msgs) == 1, "no-option-messages-kept")
		}
		verifAssert(verifStateKind(r.s.State) == stLatent, "logout-ends-connection")
	} else {
		verifCase("disconnect")
		r.s.State = inSession{}
		r.s.Disconnected(r.s)
		T1, N1 := r.st.NextTargetMsgSeqNum(), r.st.NextSenderMsgSeqNum()
		if r.s.ResetOnDisconnect {
			verifAssert(T1 == 1 && N1 == 1, "reset-option-counters-back-to-1")
		} else {
			verifAssert(T1 == T && N1 == N, "no-option-disconnect-changes-nothing")
			msgs, _ := r.st.GetMessages(1, 1)
			verifAssert(len(msgs) == 1, "no-option-messages-kept")
		}
	}
}

// C07_continuity: without reset options nothing but the initiator's own Logon touches the counters
// across disconnect / connect / timeouts.
func VerifHarness_C07_continuity() {
	initiator := ndBool("initiator")
	r := verifNewSession(initiator, verifPickBeginString())
	T := ndInt("T", 1, 40)
	N := ndInt("N", 2, 40) // a message is stored under number 1, so at least one number has been used
	r.setCounters(T, N)
	r.st.SaveMessage(1, []byte("old"))
	k := verifConc(ndInt("state", 0, 5))
	switch k {
	case 0:
		r.s.State = inSession{}
		r.app.inLogon = true
	case 1:
		r.s.State = resendState{resendRangeEnd: T + 1}
		r.app.inLogon = true
	case 2:
		r.s.State = pendingTimeout{inSession{}}
		r.app.inLogon = true
	case 3:
		r.s.State = logonState{}
	case 4:
		r.s.State = logoutState{}
	case 5:
		r.s.State = latentState{}
		r.s.messageOut = nil
	}
	expectN := N
	// quick: one event; thorough: two in a row (e.g. disconnect then connect, connect then logon timeout)
	for e := 0; e < 1+verifTier(); e++ {
		wasConnected := r.s.IsConnected()
		switch verifConc(ndInt("event", 0, 3)) {
		case 0:
			verifCase("disconnected")
			r.s.Disconnected(r.s)
		case 1:
			verifCase("connect")
			out := make(chan []byte, 4)
			r.s.onAdmin(connect{messageOut: out, messageIn: nil})
			if initiator && !wasConnected {
				expectN++
				verifAssert(len(out) == 1, "initiator-connect-sends-one-logon")
			}
		case 2:
			verifCase("logon-timeout")
			r.s.Timeout(r.s, 2)
		case 3:
			verifCase("logout-timeout")
			r.s.Timeout(r.s, 3)
		}
	}
	verifAssert(r.st.NextTargetMsgSeqNum() == T, "inbound-counter-unchanged")
	verifAssert(r.st.NextSenderMsgSeqNum() == expectN, "outbound-counter-unchanged-except-own-logon")
	msgs, _ := r.st.GetMessages(1, 1)
	verifAssert(len(msgs) == 1 && string(msgs[0]) == "old", "stored-messages-unchanged")
}

func init() { verifRegister("C07_window", VerifHarness_C07_window) }

func c07Instant(name string) time.Time {
	d := ndInt(name+".day", 0, 13)
	h := ndInt(name+".h", 0, 23)
	m := ndInt(name+".m", 0, 59)
	s := ndInt(name+".s", 0, 59)
	return time.Date(2024, time.January, 14+d, h, m, s, 0, time.UTC)
}

// C07_window: with a session schedule configured the engine looks at the clock on every event. While the store was
// created in the session window that is still open, nothing is reset (counters and messages stay); when the current
// instant lies in another window the numbering starts again at 1; outside every window the session is not in session
// time and the counters are left alone. The window arithmetic itself is C18's subject: IsInRange / IsInSameRange are
// taken as given here, what is checked is how CheckSessionTime uses them (which instants, which order, when).
func VerifHarness_C07_window() {
	r := verifNewSession(ndBool("initiator"), BeginStringFIX42)
	T := ndInt("T", 2, 40)
	N := ndInt("N", 2, 40)
	r.setCounters(T, N)
	r.st.SaveMessage(1, []byte("old"))
	tod := func(n string) internal.TimeOfDay {
		return internal.NewTimeOfDay(ndInt(n+".h", 0, 23), ndInt(n+".m", 0, 59), ndInt(n+".s", 0, 59))
	}
	var tr *internal.TimeRange
	var err error
	if ndBool("weekly-schedule") {
		verifCase("weekly")
		tr, err = internal.NewWeekRangeInLocation(tod("start"), tod("end"), time.Weekday(ndInt("startDay", 0, 6)), time.Weekday(ndInt("endDay", 0, 6)), time.UTC)
	} else {
		verifCase("daily")
		tr, err = internal.NewTimeRangeInLocation(tod("start"), tod("end"), nil, time.UTC)
	}
	verifAssume(err == nil)
	r.s.SessionTime = tr
	created := c07Instant("created")
	now := c07Instant("now")
	verifAssume(!now.Before(created))
	r.st.creationTime = created
	if ndBool("connected") {
		r.app.inLogon = true
		r.s.State = inSession{}
	} else {
		r.s.State = latentState{}
		r.s.messageOut = nil
	}
	inRange := tr.IsInRange(now)
	same := tr.IsInSameRange(created, now)
	r.s.CheckSessionTime(r.s, now)
	T1, N1 := r.st.NextTargetMsgSeqNum(), r.st.NextSenderMsgSeqNum()
	msgs, _ := r.st.GetMessages(1, 1)
	switch {
	case !inRange:
		verifCase("outside-session-time")
		verifAssert(verifStateKind(r.s.State) == stNotSessionTime, "window-outside-means-not-session-time")
	case same:
		verifCase("same-window")
		verifAssert(T1 == T && (N1 == N), "window-same-session-keeps-the-counters")
		verifAssert(len(msgs) == 1, "window-same-session-keeps-the-messages")
		verifAssert(r.st.CreationTime().Equal(created), "window-same-session-keeps-the-creation-time")
	default:
		verifCase("new-window")
		verifAssert(T1 == 1 && N1 == 1 && len(msgs) == 0, "window-new-session-starts-at-1")
	}
}
