//go:build verif

package quickfix

import (
	"bytes"
	"strings"
	"time"

	"github.com/quickfixgo/quickfix/datadictionary"
	"github.com/quickfixgo/quickfix/internal"
)

func init() {
	verifRegister("C09_leaf", VerifHarness_C09_leaf)
	verifRegister("C09_tagvalue", VerifHarness_C09_tagvalue)
	verifRegister("C09_extract", VerifHarness_C09_extract)
	verifRegister("C09_parse", VerifHarness_C09_parse)
	verifRegister("C09_getters", VerifHarness_C09_getters)
}

// Totality harnesses assert nothing but "returns": every run-time panic of the encoded functions is an
// implicit obligation of the engine and checked unwinding reports hangs.

func VerifHarness_C09_leaf() {
	n := verifConc(ndInt("len", 0, verifBound(6, 10)))
	b := ndBytes("b", n)
	switch verifConc(ndInt("reader", 0, 6)) {
	case 6:
		verifCase("FIXUTCTimestamp-every-length")
		// every length from empty to beyond the longest layout (time.Parse needs concrete text: digits with the
		// separators of the layouts where the length allows)
		for l := 0; l <= 32; l++ {
			t := []byte("20240309-07:05:03.123456789012345")[:l]
			var ts FIXUTCTimestamp
			err := ts.Read(t)
			verifAssert((err == nil) == (l == 17 || l == 21 || l == 24 || l == 27), "timestamp-accepted-exactly-at-the-four-lengths")
		}
	case 0:
		verifCase("atoi")
		v, err := atoi(b)
		_, _ = v, err
	case 1:
		verifCase("parseUInt")
		_, _ = parseUInt(b)
	case 2:
		verifCase("FIXInt")
		var f FIXInt
		_ = f.Read(b)
	case 3:
		verifCase("FIXBoolean")
		var f FIXBoolean
		_ = f.Read(b)
	case 4:
		verifCase("FIXString/FIXBytes")
		var s FIXString
		var y FIXBytes
		_ = s.Read(b)
		_ = y.Read(b)
		verifAssert(len(s.String()) == n && len(y) == n, "string-bytes-identity-length")
	case 5:
		verifCase("FIXUTCTimestamp-length-dispatch")
		// any length other than the four layouts must be rejected without touching time.Parse
		if n != 17 && n != 21 && n != 24 && n != 27 {
			var ts FIXUTCTimestamp
			verifAssert(ts.Read(b) != nil, "timestamp-wrong-length-rejected")
		}
	}
	verifObserve("done", 1)
}

func VerifHarness_C09_tagvalue() {
	n := verifConc(ndInt("len", 0, verifBound(8, 11)))
	b := ndBytes("b", n)
	// precondition established by both callers (extractField, extractXMLDataField): the slice handed to parse
	// ends with the field terminator, i.e. it is not empty and '=' is never its last byte
	verifAssume(n >= 1 && b[n-1] == verifSOH)
	var tv TagValue
	err := tv.parse(b)
	if err == nil {
		// a parsed field is usable
		_ = tv.String()
		_ = tv.total()
		verifAssert(tv.length() == n, "tagvalue-length-is-input-length")
	}
}

func VerifHarness_C09_extract() {
	n := verifConc(ndInt("len", 0, verifBound(7, 10)))
	b := ndBytes("b", n)
	var tv TagValue
	switch verifConc(ndInt("fn", 0, 2)) {
	case 0:
		verifCase("extractField")
		rem, err := extractField(&tv, b)
		verifAssert(len(rem) <= n, "remainder-not-longer")
		_ = err
	case 1:
		verifCase("extractSpecificField")
		rem, err := extractSpecificField(&tv, tagBeginString, b)
		verifAssert(len(rem) <= n, "remainder-not-longer")
		_ = err
	case 2:
		verifCase("extractXMLDataField")
		dl := ndInt("dataLen", 1, 14) // the only caller passes a value > 0 (doParsing: "if xmlDataLen > 0")
		rem, err := extractXMLDataField(&tv, b, dl)
		verifAssert(len(rem) <= n, "remainder-not-longer")
		_ = err
	}
}

func c09Dict() *datadictionary.DataDictionary {
	ft := func(tag int) *datadictionary.FieldDef {
		return datadictionary.NewFieldDef(datadictionary.NewFieldType("F", tag, "STRING"), false)
	}
	nested := datadictionary.NewGroupFieldDef(datadictionary.NewFieldType("N", 74, "NUMINGROUP"), false, []datadictionary.MessagePart{ft(75)})
	grp := datadictionary.NewGroupFieldDef(datadictionary.NewFieldType("G", 73, "NUMINGROUP"), false, []datadictionary.MessagePart{ft(11), nested, ft(12)})
	return &datadictionary.DataDictionary{
		Messages: map[string]*datadictionary.MessageDef{"D": datadictionary.NewMessageDef("D", "D", []datadictionary.MessagePart{ft(58), grp})},
	}
}

// c09Field appends one field of the given kind; values are symbolic SOH-free bytes of symbolic length.
func c09Field(b []byte, kind int) []byte {
	v := func(max int) []byte { return verifValue("v", max) }
	switch kind {
	case 0:
		return verifFieldText(b, []byte("58"), v(1))
	case 1:
		return verifFieldText(b, []byte("212"), v(2))
	case 2:
		return verifFieldText(b, []byte("213"), v(1))
	case 3:
		return verifFieldText(b, []byte("73"), v(1)) // group counter of the synthetic dictionary
	case 4:
		return verifFieldText(b, []byte("11"), v(1)) // group member / delimiter
	case 5:
		return verifFieldText(b, []byte("74"), v(1)) // nested group counter
	case 6:
		return verifFieldText(b, []byte("93"), v(1)) // trailer field
	case 7:
		return verifFieldText(b, []byte("10"), v(3)) // checksum (ends the parse)
	}
	// arbitrary field text (possibly without '=' or without tag)
	return append(append(b, v(3)...), verifSOH)
}

// C09_parse: ParseMessageWithDataDictionary returns on every structured-arbitrary input, including inputs
// whose fields end before tag 10, empty values, oversized XML lengths and junk after the last SOH.
func VerifHarness_C09_parse() {
	var dict *datadictionary.DataDictionary
	if ndBool("with-dictionary") {
		verifCase("dictionary")
		dict = c09Dict()
	} else {
		verifCase("no-dictionary")
	}
	var b []byte
	lead := verifConc(ndInt("leading", 0, 3))
	leadTags := [3]string{"8", "9", "35"}
	leadVals := [3][]byte{[]byte("FIX.4.2"), nil, []byte("D")}
	for i := 0; i < lead; i++ {
		val := leadVals[i]
		if i == 1 {
			val = verifValue("bodylength", 2)
		}
		b = verifFieldText(b, []byte(leadTags[i]), val)
	}
	nfree := 0
	if lead == 3 {
		nfree = verifConc(ndInt("free", 0, verifBound(1, 2)))
	} else {
		nfree = verifConc(ndInt("free", 0, 1))
	}
	for i := 0; i < nfree; i++ {
		b = c09Field(b, verifConc(ndInt("kind", 0, 8)))
	}
	switch verifConc(ndInt("ending", 0, 2)) {
	case 0:
		verifCase("ends-with-checksum")
		b = verifFieldText(b, []byte("10"), verifValueN("cs", 3))
	case 1:
		verifCase("truncated")
	case 2:
		verifCase("junk-tail")
		b = append(b, verifValue("tail", 2)...)
	}
	m := NewMessage()
	err := ParseMessageWithDataDictionary(m, bytes.NewBuffer(b), nil, dict)
	if err == nil {
		// the result is usable through the typed accessors
		_, _ = m.Header.GetInt(tagBodyLength)
		_, _ = m.MsgType()
		_, _ = m.Header.GetBool(tagPossDupFlag)
		_, _ = m.Body.GetString(Tag(58))
		_ = m.String()
		verifObserve("parsed", 1)
	} else {
		_ = err.Error()
		verifObserve("parsed", 0)
	}
}

// C09_getters: every typed getter on a field map holding an arbitrary value.
func VerifHarness_C09_getters() {
	m := NewMessage()
	v := verifValue("value", verifBound(4, 8))
	m.Body.SetBytes(Tag(58), v)
	tag := Tag(58)
	if ndBool("absent") {
		tag = Tag(59)
	}
	switch verifConc(ndInt("getter", 0, 5)) {
	case 0:
		_, _ = m.Body.GetInt(tag)
	case 1:
		_, _ = m.Body.GetBool(tag)
	case 2:
		_, _ = m.Body.GetString(tag)
	case 3:
		_, _ = m.Body.GetBytes(tag)
	case 4:
		if len(v) != 17 && len(v) != 21 && len(v) != 24 && len(v) != 27 {
			var t time.Time
			t, _ = m.Body.GetTime(tag)
			_ = t
		}
	case 5:
		g := NewRepeatingGroup(tag, GroupTemplate{GroupElement(11)})
		_ = m.Body.GetGroup(g)
	}
	_ = m.Body.Has(tag)
}

func init() { verifRegister("C09_session", VerifHarness_C09_session) }

// C09_session: a logged-on session is fed one bounded-arbitrary frame through Incoming (frames always end
// in SOH 10=...SOH, as the stream parser produces them), then a well-formed TestRequest with the number
// expected at that moment: nothing panics, and unless the first frame legitimately ended the logon the
// TestRequest is answered by a Heartbeat with the same TestReqID.
func VerifHarness_C09_session() {
	r := verifNewSession(false, BeginStringFIX42)
	if ndBool("with-dictionary") {
		r.s.appDataDictionary = c09Dict()
	}
	T := ndInt("T", 10, 40)
	r.setCounters(T, 3)
	kind := verifConc(ndInt("state", 0, 2))
	switch kind {
	case 0:
		r.verifLoggedOnState(stInSession, T)
	case 1:
		r.app.inLogon = true
		r.s.State = resendState{resendRangeEnd: T + 2}
	case 2:
		r.verifLoggedOnState(stPendingInSession, T)
	}
	// ---- the garbage frame
	var b []byte
	b = verifFieldText(b, []byte("8"), []byte("FIX.4.2"))
	b = verifFieldText(b, []byte("9"), verifValue("bodylength", 2))
	mt := verifValue("msgtype", 1)
	b = verifFieldText(b, []byte("35"), mt)
	nfree := verifConc(ndInt("free", 0, verifBound(1, 2)))
	for i := 0; i < nfree; i++ {
		switch verifConc(ndInt("kind", 0, 5)) {
		case 0:
			b = verifFieldText(b, []byte("34"), verifValue("seq", 2))
		case 1:
			b = verifFieldText(b, []byte("49"), verifValue("sender", 2))
		case 2:
			b = verifFieldText(b, []byte("52"), verifValue("time", 1))
		case 3:
			b = verifFieldText(b, []byte("212"), verifValue("xmllen", 1))
		case 4:
			b = verifFieldText(b, []byte("43"), verifValue("possdup", 1))
		case 5:
			b = append(append(b, verifValue("junk", 2)...), verifSOH)
		}
	}
	b = verifFieldText(b, []byte("10"), verifValueN("cs", 3))
	r.s.Incoming(r.s, fixIn{bytes: bytes.NewBuffer(b), receiveTime: time.Now()})
	r.pump()
	r.drain()
	if !r.s.IsLoggedOn() {
		verifCase("first-frame-ended-the-logon")
		return
	}
	verifCase("still-logged-on")
	// ---- the next well-formed message is processed
	T1 := r.st.NextTargetMsgSeqNum()
	_, recovering := r.s.State.(resendState)
	tr := r.inbound("1", T1)
	tr.Body.SetString(tagTestReqID, "PING")
	r.s.Incoming(r.s, fixIn{bytes: bytes.NewBuffer(tr.build()), receiveTime: time.Now()})
	r.pump()
	ws := r.drain()
	if !recovering || true {
		n := 0
		for i := range ws {
			if id, ok := ws[i].get(112); ws[i].is("0") && ok && string(id) == "PING" {
				n++
			}
		}
		verifAssert(n == 1, "next-well-formed-message-processed-after-garbage")
	}
	verifObserve("sent", len(ws))
}

func init() { verifRegister("C09_settings", VerifHarness_C09_settings) }

// C09_settings: ParseSettings returns a value or an error on every sequence of lines from a vocabulary
// covering each line class (blank, comment, section headers, settings, junk).
func VerifHarness_C09_settings() {
	vocab := []string{"", "# comment", "[DEFAULT]", "[SESSION]", "[session]", "k=v", "BeginString=FIX.4.2", "SenderCompID=A", "TargetCompID=B", "=x", "junk", "[OTHER]"}
	n := verifConc(ndInt("lines", 0, verifBound(3, 4)))
	text := ""
	for i := 0; i < n; i++ {
		text += vocab[verifConc(ndInt("line", 0, len(vocab)-1))] + "\n"
	}
	s, err := ParseSettings(strings.NewReader(text))
	if err == nil {
		verifAssert(s != nil, "settings-value-or-error")
		_ = s.GlobalSettings()
		_ = s.SessionSettings()
	}
	verifObserve("ok", verifIteInt(err == nil, 1, 0))
}

func init() { verifRegister("C09_length", VerifHarness_C09_length) }

// C09_length: the stream framing parser on a message whose BodyLength is ANY decimal text of up to 19 digits
// (exact 64-bit wrap-around: this harness runs in the bit-vector encoding).
func VerifHarness_C09_length() {
	nd := verifConc(ndInt("digits", 1, 19))
	d := ndBytes("len", nd)
	for _, c := range d {
		verifAssume(c >= '0' && c <= '9')
	}
	stream := []byte("8=F\x019=")
	stream = append(stream, d...)
	stream = append(stream, []byte("\x0135=D\x0110=000\x01")...)
	p := &parser{reader: &c12Uniform{data: stream, k: len(stream)}, bigBuffer: make([]byte, 96)}
	b, err := p.ReadMessage()
	if err == nil {
		verifAssert(b != nil, "frame-or-error")
	}
}

func init() { verifRegister("C09_early", VerifHarness_C09_early) }

// C09_early: a message that arrives early (number above the expected one) is kept and processed later, when the gap
// has been closed - a second route into every handler. Any message type with symbolic content is sent one ahead,
// the gap is then filled, and the kept message is replayed from the stash: nothing panics, the replay terminates
// (checked unwinding; a hang candidate is decided by native replay), and a session still logged on afterwards
// answers a TestRequest carrying the number expected at that moment.
func VerifHarness_C09_early() {
	r := verifNewSession(false, BeginStringFIX42)
	T := ndInt("T", 20, 22)
	r.setCounters(T, 3)
	r.verifLoggedOnState(stInSession, T)
	var early *Message
	switch verifConc(ndInt("early-type", 0, 6)) {
	case 0:
		verifCase("early-heartbeat")
		early = r.inbound("0", T+1)
	case 1:
		verifCase("early-testrequest")
		early = r.inbound("1", T+1)
		early.Body.SetString(tagTestReqID, "E")
	case 2:
		verifCase("early-resendrequest")
		early = r.inbound("2", T+1)
		early.Body.SetInt(tagBeginSeqNo, ndInt("begin", 0, 5))
		early.Body.SetInt(tagEndSeqNo, ndInt("end", 0, 5))
	case 3:
		verifCase("early-sequencereset")
		early = r.inbound("4", T+1)
		early.Body.SetInt(tagNewSeqNo, ndInt("NewSeqNo", 0, 30))
		if ndBool("gapfill") {
			early.Body.SetBool(tagGapFillFlag, true)
		}
	case 4:
		verifCase("early-logout")
		early = r.inbound("5", T+1)
	case 5:
		verifCase("early-application")
		early = r.appMessage(T + 1)
	case 6:
		verifCase("early-reject")
		early = r.inbound("3", T+1)
		early.Body.SetInt(tagRefSeqNum, ndInt("ref", 0, 5))
	}
	if ndBool("possdup") {
		verifPossDup(early)
	}
	r.s.Incoming(r.s, fixIn{bytes: bytes.NewBuffer(early.build()), receiveTime: time.Now()})
	r.pump()
	r.drain()
	if !r.s.IsLoggedOn() {
		return
	}
	// the gap is closed: the kept message is taken from the stash and handled
	g := r.inbound("4", T)
	g.Body.SetInt(tagNewSeqNo, T+1)
	g.Body.SetBool(tagGapFillFlag, true)
	verifPossDup(g)
	r.s.Incoming(r.s, fixIn{bytes: bytes.NewBuffer(g.build()), receiveTime: time.Now()})
	r.pump()
	r.drain()
	if !r.s.IsLoggedOn() {
		verifCase("kept-message-ended-the-logon")
		return
	}
	verifCase("still-logged-on")
	tr := r.inbound("1", r.st.NextTargetMsgSeqNum())
	tr.Body.SetString(tagTestReqID, "PING")
	r.s.Incoming(r.s, fixIn{bytes: bytes.NewBuffer(tr.build()), receiveTime: time.Now()})
	r.pump()
	ws := r.drain()
	n := 0
	for i := range ws {
		if id, ok := ws[i].get(112); ws[i].is("0") && ok && string(id) == "PING" {
			n++
		}
	}
	verifAssert(n == 1, "next-well-formed-message-processed-after-early-message")
}

func init() { verifRegister("C09_drain", VerifHarness_C09_drain) }

// C09_drain: the reader goroutine may already have queued further frames when a message ends the connection; the
// session drains that queue while disconnecting. Whatever the queued frame is, handling it neither panics (its reply
// has nowhere to go: the connection is already closed) nor hangs.
func VerifHarness_C09_drain() {
	r := verifNewSession(ndBool("initiator"), BeginStringFIX42)
	r.withTimers()
	T := ndInt("T", 20, 22)
	r.setCounters(T, 3)
	kind := verifConc(ndInt("state", 0, 3))
	r.verifLoggedOnState(kind, T)
	in := make(chan fixIn, 4)
	r.s.messageIn = in
	// what is already queued behind the message that ends the connection
	nq := verifConc(ndInt("queued", 1, 2))
	for i := 0; i < nq; i++ {
		var q *Message
		switch verifConc(ndInt("queued-type", 0, 5)) {
		case 0:
			verifCase("queued-testrequest")
			q = r.inbound("1", T+1+i)
			q.Body.SetString(tagTestReqID, "Q")
		case 1:
			verifCase("queued-logout")
			q = r.inbound("5", T+1+i)
		case 2:
			verifCase("queued-resendrequest")
			q = r.inbound("2", T+1+i)
			q.Body.SetInt(tagBeginSeqNo, 1)
			q.Body.SetInt(tagEndSeqNo, 0)
		case 3:
			verifCase("queued-application")
			q = r.appMessage(T + 1 + i)
		case 4:
			verifCase("queued-too-low")
			q = r.appMessage(T - 3)
		case 5:
			verifCase("queued-garbage")
			q = r.inbound("0", T+1+i)
			q.Header.SetString(tagBeginString, "FIX.9.9")
		}
		in <- fixIn{bytes: bytes.NewBuffer(q.build()), receiveTime: time.Now()}
	}
	// the message that ends the connection: the peer's Logout, or a frame that makes the engine give up
	var m *Message
	if ndBool("ends-with-logout") {
		m = r.inbound("5", T)
	} else {
		m = r.inbound("0", T)
		m.Header.SetString(tagSenderCompID, "XX")
	}
	r.s.Incoming(r.s, fixIn{bytes: bytes.NewBuffer(m.build()), receiveTime: time.Now()})
	r.pump()
	if !r.s.IsConnected() {
		verifCase("disconnected")
		verifAssert(len(in) == 0, "drain-empties-the-inbound-queue")
		verifAssert(r.s.messageOut == nil, "drain-leaves-no-connection")
	}
	// a timer that fires afterwards finds a quiet session
	r.s.Timeout(r.s, internal.NeedHeartbeat)
	r.s.Timeout(r.s, internal.PeerTimeout)
	r.s.Timeout(r.s, internal.LogoutTimeout)
	verifObserve("connected", map[bool]int{false: 0, true: 1}[r.s.IsConnected()])
}
