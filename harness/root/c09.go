//go:build verif

package quickfix

import (
	"bytes"
	"time"

	"github.com/quickfixgo/quickfix/datadictionary"
)

func init() {
	verifRegister("C09_leaf", VerifHarness_C09_leaf)
	verifRegister("C09_tagvalue", VerifHarness_C09_tagvalue)
	verifRegister("C09_extract", VerifHarness_C09_extract)
	verifRegister("C09_parse", VerifHarness_C09_parse)
	verifRegister("C09_getters", VerifHarness_C09_getters)
}

// Totality harnesses assert nothing but "returns": every run-time panic of the encoded functions is an
// implicit obligation of the engine and checked unwinding reports hangs.

func VerifHarness_C09_leaf() {
	n := verifConc(ndInt("len", 0, verifBound(6, 10)))
	b := ndBytes("b", n)
	switch verifConc(ndInt("reader", 0, 5)) {
	case 0:
		verifCase("atoi")
		v, err := atoi(b)
		_, _ = v, err
	case 1:
		verifCase("parseUInt")
		_, _ = parseUInt(b)
	case 2:
		verifCase("FIXInt")
		var f FIXInt
		_ = f.Read(b)
	case 3:
		verifCase("FIXBoolean")
		var f FIXBoolean
		_ = f.Read(b)
	case 4:
		verifCase("FIXString/FIXBytes")
		var s FIXString
		var y FIXBytes
		_ = s.Read(b)
		_ = y.Read(b)
		verifAssert(len(s.String()) == n && len(y) == n, "string-bytes-identity-length")
	case 5:
		verifCase("FIXUTCTimestamp-length-dispatch")
		// any length other than the four layouts must be rejected without touching time.Parse
		if n != 17 && n != 21 && n != 24 && n != 27 {
			var ts FIXUTCTimestamp
			verifAssert(ts.Read(b) != nil, "timestamp-wrong-length-rejected")
		}
	}
	verifObserve("done", 1)
}

func VerifHarness_C09_tagvalue() {
	n := verifConc(ndInt("len", 0, verifBound(8, 11)))
	b := ndBytes("b", n)
	// precondition established by both callers (extractField, extractXMLDataField): the slice handed to parse
	// ends with the field terminator, i.e. it is not empty and '=' is never its last byte
	verifAssume(n >= 1 && b[n-1] == verifSOH)
	var tv TagValue
	err := tv.parse(b)
	if err == nil {
		// a parsed field is usable
		_ = tv.String()
		_ = tv.total()
		verifAssert(tv.length() == n, "tagvalue-length-is-input-length")
	}
}

func VerifHarness_C09_extract() {
	n := verifConc(ndInt("len", 0, verifBound(7, 10)))
	b := ndBytes("b", n)
	var tv TagValue
	switch verifConc(ndInt("fn", 0, 2)) {
	case 0:
		verifCase("extractField")
		rem, err := extractField(&tv, b)
		verifAssert(len(rem) <= n, "remainder-not-longer")
		_ = err
	case 1:
		verifCase("extractSpecificField")
		rem, err := extractSpecificField(&tv, tagBeginString, b)
		verifAssert(len(rem) <= n, "remainder-not-longer")
		_ = err
	case 2:
		verifCase("extractXMLDataField")
		dl := ndInt("dataLen", 1, 14) // the only caller passes a value > 0 (doParsing: "if xmlDataLen > 0")
		rem, err := extractXMLDataField(&tv, b, dl)
		verifAssert(len(rem) <= n, "remainder-not-longer")
		_ = err
	}
}

func c09Dict() *datadictionary.DataDictionary {
	ft := func(tag int) *datadictionary.FieldDef {
		return datadictionary.NewFieldDef(datadictionary.NewFieldType("F", tag, "STRING"), false)
	}
	nested := datadictionary.NewGroupFieldDef(datadictionary.NewFieldType("N", 74, "NUMINGROUP"), false, []datadictionary.MessagePart{ft(75)})
	grp := datadictionary.NewGroupFieldDef(datadictionary.NewFieldType("G", 73, "NUMINGROUP"), false, []datadictionary.MessagePart{ft(11), nested, ft(12)})
	return &datadictionary.DataDictionary{
		Messages: map[string]*datadictionary.MessageDef{"D": datadictionary.NewMessageDef("D", "D", []datadictionary.MessagePart{ft(58), grp})},
	}
}

// c09Field appends one field of the given kind; values are symbolic SOH-free bytes of symbolic length.
func c09Field(b []byte, kind int) []byte {
	v := func(max int) []byte { return verifValue("v", max) }
	switch kind {
	case 0:
		return verifFieldText(b, []byte("58"), v(1))
	case 1:
		return verifFieldText(b, []byte("212"), v(2))
	case 2:
		return verifFieldText(b, []byte("213"), v(1))
	case 3:
		return verifFieldText(b, []byte("73"), v(1)) // group counter of the synthetic dictionary
	case 4:
		return verifFieldText(b, []byte("11"), v(1)) // group member / delimiter
	case 5:
		return verifFieldText(b, []byte("74"), v(1)) // nested group counter
	case 6:
		return verifFieldText(b, []byte("93"), v(1)) // trailer field
	case 7:
		return verifFieldText(b, []byte("10"), v(3)) // checksum (ends the parse)
	}
	// arbitrary field text (possibly without '=' or without tag)
	return append(append(b, v(3)...), verifSOH)
}

// C09_parse: ParseMessageWithDataDictionary returns on every structured-arbitrary input, including inputs
// whose fields end before tag 10, empty values, oversized XML lengths and junk after the last SOH.
func VerifHarness_C09_parse() {
	var dict *datadictionary.DataDictionary
	if ndBool("with-dictionary") {
		verifCase("dictionary")
		dict = c09Dict()
	} else {
		verifCase("no-dictionary")
	}
	var b []byte
	lead := verifConc(ndInt("leading", 0, 3))
	leadTags := [3]string{"8", "9", "35"}
	leadVals := [3][]byte{[]byte("FIX.4.2"), nil, []byte("D")}
	for i := 0; i < lead; i++ {
		val := leadVals[i]
		if i == 1 {
			val = verifValue("bodylength", 2)
		}
		b = verifFieldText(b, []byte(leadTags[i]), val)
	}
	nfree := 0
	if lead == 3 {
		nfree = verifConc(ndInt("free", 0, verifBound(1, 2)))
	} else {
		nfree = verifConc(ndInt("free", 0, 1))
	}
	for i := 0; i < nfree; i++ {
		b = c09Field(b, verifConc(ndInt("kind", 0, 8)))
	}
	switch verifConc(ndInt("ending", 0, 2)) {
	case 0:
		verifCase("ends-with-checksum")
		b = verifFieldText(b, []byte("10"), verifValueN("cs", 3))
	case 1:
		verifCase("truncated")
	case 2:
		verifCase("junk-tail")
		b = append(b, verifValue("tail", 2)...)
	}
	m := NewMessage()
	err := ParseMessageWithDataDictionary(m, bytes.NewBuffer(b), nil, dict)
	if err == nil {
		// the result is usable through the typed accessors
		_, _ = m.Header.GetInt(tagBodyLength)
		_, _ = m.MsgType()
		_, _ = m.Header.GetBool(tagPossDupFlag)
		_, _ = m.Body.GetString(Tag(58))
		_ = m.String()
		verifObserve("parsed", 1)
	} else {
		_ = err.Error()
		verifObserve("parsed", 0)
	}
}

// C09_getters: every typed getter on a field map holding an arbitrary value.
func VerifHarness_C09_getters() {
	m := NewMessage()
	v := verifValue("value", verifBound(4, 8))
	m.Body.SetBytes(Tag(58), v)
	tag := Tag(58)
	if ndBool("absent") {
		tag = Tag(59)
	}
	switch verifConc(ndInt("getter", 0, 5)) {
	case 0:
		_, _ = m.Body.GetInt(tag)
	case 1:
		_, _ = m.Body.GetBool(tag)
	case 2:
		_, _ = m.Body.GetString(tag)
	case 3:
		_, _ = m.Body.GetBytes(tag)
	case 4:
		if len(v) != 17 && len(v) != 21 && len(v) != 24 && len(v) != 27 {
			var t time.Time
			t, _ = m.Body.GetTime(tag)
			_ = t
		}
	case 5:
		g := NewRepeatingGroup(tag, GroupTemplate{GroupElement(11)})
		_ = m.Body.GetGroup(g)
	}
	_ = m.Body.Has(tag)
}
