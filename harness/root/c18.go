//go:build verif

package quickfix

import (
	"time"

	"github.com/quickfixgo/quickfix/config"
)

func init() { verifRegister("C18_config", VerifHarness_C18_config) }

// C18_config: the schedule is built from CONFIGURATION by the real sessionFactory.newSession (day-name table,
// argument order, time zone wiring) and compared with the windows the settings describe.
func VerifHarness_C18_config() {
	times := []string{"00:00:00", "08:30:00", "17:00:00", "22:15:30"}
	secs := []int{0, 8*3600 + 30*60, 17 * 3600, 22*3600 + 15*60 + 30}
	dayNames := []string{"Sunday", "Mon", "Tuesday", "Wed", "Thu", "Friday", "Sat"}
	si := verifConc(ndInt("start", 0, 3))
	ei := verifConc(ndInt("end", 0, 3))
	st := NewSessionSettings()
	st.Set(config.BeginString, "FIX.4.2")
	st.Set(config.SenderCompID, "S")
	st.Set(config.TargetCompID, "T")
	st.Set(config.StartTime, times[si])
	st.Set(config.EndTime, times[ei])
	if ndBool("timezone-utc") {
		st.Set(config.TimeZone, "UTC")
	}
	weekly := ndBool("weekly")
	var wd []int
	sd, ed := 0, 0
	if weekly {
		verifCase("start-day/end-day")
		sd, ed = verifConc(ndInt("startday", 0, 6)), verifConc(ndInt("endday", 0, 6))
		st.Set(config.StartDay, dayNames[sd])
		st.Set(config.EndDay, dayNames[ed])
	} else {
		verifCase("weekdays")
		n := verifConc(ndInt("nweekdays", 0, 2))
		list := ""
		for i := 0; i < n; i++ {
			d := verifConc(ndInt("weekday", 0, 6))
			wd = append(wd, d)
			if i > 0 {
				list += ","
			}
			list += dayNames[d]
		}
		if n > 0 {
			st.Set(config.Weekdays, list)
		}
	}
	s, err := sessionFactory{}.newSession(SessionID{BeginString: "FIX.4.2", SenderCompID: "S", TargetCompID: "T"},
		NewMemoryStoreFactory(), st, NewNullLogFactory(), &verifApp{})
	verifAssert(err == nil && s != nil && s.SessionTime != nil, "schedule-configuration-accepted")
	if err != nil || s.SessionTime == nil {
		return
	}
	// a symbolic instant in the abstract calendar (UTC): day = 7 + 7*week + weekday
	wk := ndInt("t.week", 0, 1)
	dow := ndInt("t.weekday", 0, 6)
	h, m, sec := ndInt("t.h", 0, 23), ndInt("t.m", 0, 59), ndInt("t.s", 0, 59)
	day := 7 + 7*wk + dow
	t := time.Date(2024, time.January, 7+day, h, m, sec, 0, time.UTC)
	sod := h*3600 + m*60 + sec
	start, end := secs[si], secs[ei]
	away := func(a, b int) bool { d := a - b; return d > 1 || d < -1 }
	var want bool
	if weekly {
		so, eo := sd*86400+start, ed*86400+end
		sow := dow*86400 + sod
		verifAssume(away(sow, so) && away(sow, eo))
		if so < eo {
			want = so <= sow && sow <= eo
		} else {
			want = sow >= so || sow <= eo
		}
	} else {
		verifAssume(away(sod, start) && away(sod, end))
		in := func(d int) bool {
			if len(wd) == 0 {
				return true
			}
			for _, x := range wd {
				if x == (d%7+7)%7 {
					return true
				}
			}
			return false
		}
		if start < end {
			want = in(dow) && start <= sod && sod <= end
		} else if sod >= start {
			want = in(dow)
		} else if sod <= end {
			want = in(dow - 1)
		}
	}
	verifAssert(s.SessionTime.IsInRange(t) == want, "configured-schedule-classifies-instants-by-its-windows")
}
