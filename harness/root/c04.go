//go:build verif

package quickfix

import "time"

func init() {
	verifRegister("C04_detect", VerifHarness_C04_detect)
	verifRegister("C04_recover", VerifHarness_C04_recover)
	verifRegister("C04_logon_gap", VerifHarness_C04_logon_gap)
}

func c04EndMarker(bs string) int {
	if bs < BeginStringFIX42 {
		return 999999
	}
	return 0
}

// c04CheckRequest: ws contains exactly one ResendRequest, for [T, end] per the chunk rule.
func c04CheckRequest(ws []verifWire, bs string, T, S, chunk int, pfx string) {
	verifAssert(verifCountType(ws, "2") == 1, pfx+"-exactly-one-resendrequest")
	for i := range ws {
		if !ws[i].is("2") {
			continue
		}
		b, okb := ws[i].getInt(7)
		e, oke := ws[i].getInt(16)
		verifAssert(okb && b == T, pfx+"-beginseqno-is-expected-number")
		want := c04EndMarker(bs)
		if chunk > 0 && T+chunk-1 < S-1 {
			want = T + chunk - 1
		}
		verifAssert(oke && e == want, pfx+"-endseqno-infinity-or-chunk")
	}
}

// C04_detect: a message above the expected number in a non-recovering logged-on state.
func VerifHarness_C04_detect() {
	bs := verifPickBeginString()
	r := verifNewSession(ndBool("initiator"), bs)
	chunk := verifConc(ndInt("chunk", 0, 3))
	r.s.ResendRequestChunkSize = chunk
	T := ndInt("T", verifSeqLo(), 50)
	r.setCounters(T, ndInt("N", 1, 9))
	if ndBool("testrequest-pending") {
		r.verifLoggedOnState(stPendingInSession, T)
	} else {
		r.verifLoggedOnState(stInSession, T)
	}
	m := r.verifEvent("ev", T, 60)
	S, _ := m.Header.GetInt(tagMsgSeqNum)
	verifAssume(S > T)
	mt, _ := m.MsgType()
	gapFill := m.Body.Has(tagGapFillFlag)
	verifAssume(mt != "2" && mt != "5" && (mt != "4" || gapFill)) // ResendRequest, Logout and SequenceReset-Reset ignore "too high"
	r.s.fixMsgIn(r.s, m)
	r.pump()
	ws := r.drain()
	c04CheckRequest(ws, bs, T, S, chunk, "detect")
	verifAssert(r.st.NextTargetMsgSeqNum() == T, "detect-expected-number-unchanged")
	rs, ok := r.s.State.(resendState)
	verifAssert(ok, "detect-enters-recovery")
	if ok {
		kept, have := rs.messageStash[S]
		verifAssert(have && kept == m, "detect-early-message-kept")
		verifAssert(rs.resendRangeEnd == S-1, "detect-range-end-is-one-below-early-message")
	}
	verifAssert(len(r.app.fromApp) == 0, "detect-early-message-not-delivered-yet")
}

// C04_logon_gap: the gap is detected on the Logon itself.
func VerifHarness_C04_logon_gap() {
	bs := verifPickBeginString()
	initiator := ndBool("initiator")
	r := verifNewSession(initiator, bs)
	chunk := verifConc(ndInt("chunk", 0, 2))
	r.s.ResendRequestChunkSize = chunk
	T := ndInt("T", verifSeqLo(), 50)
	N := ndInt("N", 1, 9)
	r.setCounters(T, N)
	r.s.State = logonState{}
	S := ndInt("S", verifSeqLo(), 60)
	verifAssume(S > T)
	logon := r.inbound("A", S)
	if ndBool("EnableNextExpectedMsgSeqNum") {
		// the peer announces the number it expects from us (exactly our next one: nothing to resend on our side);
		// what WE miss is still asked for with a ResendRequest
		r.s.EnableNextExpectedMsgSeqNum = true
		logon.Body.SetInt(tagNextExpectedMsgSeqNum, N)
	}
	r.s.fixMsgIn(r.s, logon)
	r.pump()
	ws := r.drain()
	c04CheckRequest(ws, bs, T, S, chunk, "logon-gap")
	verifAssert(r.app.onLogon == 1, "logon-gap-session-established")
	_, ok := r.s.State.(resendState)
	verifAssert(ok, "logon-gap-enters-recovery")
	verifAssert(r.st.NextTargetMsgSeqNum() == T, "logon-gap-expected-number-unchanged")
	if !initiator {
		verifAssert(len(ws) >= 1 && ws[0].is("A"), "logon-gap-acceptor-answers-logon-first")
	}
	// a live message arriving before the replay is kept, not requested again
	live := r.appMessage(S + 1)
	r.s.fixMsgIn(r.s, live)
	r.pump()
	verifAssert(verifCountType(r.drain(), "2") == 0, "logon-gap-no-second-resendrequest")
	rs, ok := r.s.State.(resendState)
	verifAssert(ok, "logon-gap-still-recovering")
	if ok {
		kept, have := rs.messageStash[S+1]
		verifAssert(have && kept == live, "logon-gap-early-message-kept")
	}
}

// C04_recover: recovery in progress, K further events.
func VerifHarness_C04_recover() {
	bs := BeginStringFIX42
	if verifTier() == 1 && ndBool("fix41") {
		bs = BeginStringFIX41 // the other end marker (999999); C04_detect / C04_logon_gap run all four BeginStrings
	}
	r := verifNewSession(false, bs)
	chunk := verifConc(ndInt("chunk", 0, 2))
	r.s.ResendRequestChunkSize = chunk
	// quick: the starting number is one symbolic value of a narrow range (the event order, chunking and gap carry
	// the case analysis; C04_detect keeps the numbers fully symbolic); thorough: 1..40
	T := ndInt("T", 20, 22)
	if verifTier() == 1 {
		T = ndInt("T", 1, 40)
	}
	r.setCounters(T, 5)
	r.verifLoggedOnState(stInSession, T)
	gap := verifConc(ndInt("gap", 1, 2+verifTier()))
	S := T + gap
	early := r.appMessage(S)
	r.s.fixMsgIn(r.s, early)
	r.pump()
	first := r.drain()
	c04CheckRequest(first, bs, T, S, chunk, "recover-first")
	// oracle-side model of the chunk in progress, derived from what was put on the wire
	modelChunkEnd := 0
	c04Track := func(ws []verifWire) {
		for i := range ws {
			if ws[i].is("2") {
				if e, ok := ws[i].getInt(16); ok && e != c04EndMarker(bs) {
					modelChunkEnd = e
				} else {
					modelChunkEnd = 0
				}
			}
		}
	}
	c04Track(first)
	highest := S
	kept := []int{S}
	K := verifBound(3, 4)
	for k := 0; k < K; k++ {
		if !r.s.IsLoggedOn() {
			return
		}
		before := r.st.NextTargetMsgSeqNum()
		st0, recovering := r.s.State.(resendState)
		if p, isP := r.s.State.(pendingTimeout); isP {
			st0, recovering = p.sessionState.(resendState)
		}
		curEnd := modelChunkEnd
		_ = st0.currentResendRangeEnd
		switch verifConc(ndInt("event", 0, 5)) {
		case 5:
			// the peer's live traffic may itself contain a gap fill (it skips administrative numbers): it arrives
			// early, is kept like any other message, and moves the expected number by more than one when its turn comes
			verifCase("live-gapfill-above")
			span := verifConc(ndInt("live-span", 1, 2))
			g := r.inbound("4", highest+1)
			g.Body.SetInt(tagNewSeqNo, highest+1+span)
			g.Body.SetBool(tagGapFillFlag, true)
			r.s.fixMsgIn(r.s, g)
			highest += span
		case 0:
			verifCase("replay-next")
			verifAssume(before < S || before > highest)
			m := r.appMessage(before)
			verifPossDup(m)
			r.s.fixMsgIn(r.s, m)
			if before > highest {
				highest = before
			}
		case 1:
			verifCase("gapfill")
			m := r.inbound("4", before)
			span := verifConc(ndInt("span", 1, 2))
			// the peer fills only numbers it has not sent live ("the peer skipped nothing")
			verifAssume(before+span <= S)
			m.Body.SetInt(tagNewSeqNo, before+span)
			m.Body.SetBool(tagGapFillFlag, true)
			verifPossDup(m)
			r.s.fixMsgIn(r.s, m)
			if before+span-1 > highest {
				highest = before + span - 1
			}
		case 2:
			verifCase("live-next-above")
			highest++
			kept = append(kept, highest)
			r.s.fixMsgIn(r.s, r.appMessage(highest))
		case 3:
			verifCase("heartbeat-in-sequence")
			// the peer numbers a new message only with a number it has not used for a kept message
			verifAssume(before < S || before > highest)
			m := r.inbound("0", before)
			r.s.fixMsgIn(r.s, m)
			if before > highest {
				highest = before
			}
		case 4:
			verifCase("peer-timeout")
			r.s.Timeout(r.s, 0)
		}
		r.pump()
		ws := r.drain()
		now := r.st.NextTargetMsgSeqNum()
		nreq := verifCountType(ws, "2")
		// a further request is due exactly when a chunk has been used up and numbers are still missing
		// (the implementation also re-requests when a gap fill stops exactly at the chunk end: tolerated)
		chunkDone := recovering && curEnd != 0 && now > curEnd && now <= st0.resendRangeEnd
		chunkEdge := recovering && curEnd != 0 && now == curEnd
		if recovering && !chunkDone && !chunkEdge {
			verifAssert(nreq == 0, "recover-no-further-resendrequest-while-recovering")
		}
		if chunkDone {
			verifAssert(nreq == 1, "recover-next-chunk-requested")
		}
		for i := range ws {
			if ws[i].is("2") {
				b, ok := ws[i].getInt(7)
				verifAssert(ok && b == now, "recover-request-begins-at-expected-number")
			}
		}
		verifAssert(nreq <= 1, "recover-at-most-one-resendrequest-per-event")
		c04Track(ws)
	}
	r.checkDeliveries("recover")
	// if every missing number has arrived, everything kept was delivered and the session is back to normal
	T1 := r.st.NextTargetMsgSeqNum()
	// leaving recovery means nothing received is still waiting: the session may only be back to normal when it
	// expects one past the highest message received
	if k1 := verifStateKind(r.s.State); k1 == stInSession || k1 == stPendingInSession {
		verifAssert(T1 == highest+1, "recover-back-to-normal-only-when-nothing-kept-is-pending")
	}
	if T1 > highest && r.s.IsLoggedOn() {
		verifAssert(verifStateKind(r.s.State) == stInSession || verifStateKind(r.s.State) == stPendingInSession, "recover-returns-to-normal-when-complete")
		verifAssert(T1 == highest+1, "recover-expects-one-past-highest-received")
		for _, k := range kept {
			got := 0
			for _, d := range r.app.fromApp {
				if d.seq == k {
					got++
				}
			}
			verifAssert(got == 1, "recover-every-kept-message-delivered-once")
		}
	}
	verifObserve("T1", T1)
}

func init() { verifRegister("C04_chunk_step", VerifHarness_C04_chunk_step) }

// C04_chunk_step — inductive step for chunked recovery: from ANY recovery state with a chunk in progress
// (symbolic expected number T, chunk end C, range end R with T <= C < R) one replayed message or one gap fill
// with a symbolic NewSeqNo; a further ResendRequest is sent exactly when the chunk is used up and numbers are
// still missing, and it begins at the number expected at that moment.
func VerifHarness_C04_chunk_step() {
	bs := verifPickBeginString()
	r := verifNewSession(false, bs)
	chunk := verifConc(ndInt("chunk", 1, 3))
	r.s.ResendRequestChunkSize = chunk
	T := ndInt("T", verifSeqLo(), 40)
	C := ndInt("C", verifSeqLo(), 45)
	R := ndInt("R", verifSeqLo(), 50)
	verifAssume(T <= C && C < R && C < T+chunk)
	r.setCounters(T, 5)
	r.app.inLogon = true
	kept := r.appMessage(R + 1)
	r.s.State = resendState{resendRangeEnd: R, currentResendRangeEnd: C, messageStash: map[int]*Message{R + 1: kept}}
	if ndBool("gapfill") {
		verifCase("gapfill")
		m := r.inbound("4", T)
		ns := ndInt("NewSeqNo", verifSeqLo(), 52)
		verifAssume(ns > T && ns <= R+1) // fills only missing numbers
		m.Body.SetInt(tagNewSeqNo, ns)
		m.Body.SetBool(tagGapFillFlag, true)
		verifPossDup(m)
		r.s.fixMsgIn(r.s, m)
	} else {
		verifCase("replay")
		m := r.appMessage(T)
		verifPossDup(m)
		r.s.fixMsgIn(r.s, m)
	}
	r.pump()
	ws := r.drain()
	now := r.st.NextTargetMsgSeqNum()
	nreq := verifCountType(ws, "2")
	if now > C && now <= R {
		verifAssert(nreq == 1, "chunk-step-next-chunk-requested")
		for i := range ws {
			if ws[i].is("2") {
				b, okb := ws[i].getInt(7)
				e, oke := ws[i].getInt(16)
				verifAssert(okb && b == now, "chunk-step-request-begins-at-expected-number")
				want := c04EndMarker(bs)
				if now+chunk-1 < R {
					want = now + chunk - 1
				}
				verifAssert(oke && e == want, "chunk-step-endseqno-infinity-or-chunk")
			}
		}
	} else if now > R {
		verifAssert(nreq == 0, "chunk-step-no-request-when-nothing-is-missing")
		verifAssert(len(r.app.fromApp) >= 1 && r.app.fromApp[len(r.app.fromApp)-1].seq == R+1, "chunk-step-kept-message-delivered")
	} else if now < C {
		verifAssert(nreq == 0, "chunk-step-no-request-inside-the-chunk")
	}
	verifObserve("now", now)
}

func init() { verifRegister("C04_wire", VerifHarness_C04_wire) }

// C04_wire: gap detection and recovery driven through Incoming, i.e. from bytes as the connection delivers them (the
// other C04 harnesses hand freshly built Message values to the state machine): one or two early application messages
// are kept while the missing ones arrive as replays or a gap fill; everything is delivered once, in order, and the
// session is back to normal expecting one past the highest message received.
func VerifHarness_C04_wire() {
	r := verifNewSession(ndBool("initiator"), BeginStringFIX42)
	r.withTimers()
	T := ndInt("T", 20, 22)
	r.setCounters(T, 5)
	r.verifLoggedOnState(stInSession, T)
	// the frames go through the stream parser, as on a connection: one parser for the whole exchange, every frame
	// read with ReadMessage and handed to Incoming
	src := &c12Uniform{k: 1 << 20}
	p := &parser{reader: src, bigBuffer: make([]byte, 96)}
	feed := func(m *Message) {
		src.data = append(src.data, m.build()...)
		b, err := p.ReadMessage()
		verifAssume(err == nil)
		r.s.Incoming(r.s, fixIn{bytes: b, receiveTime: time.Now()})
		r.pump()
	}
	gap := verifConc(ndInt("gap", 1, 2))
	early := verifConc(ndInt("early-messages", 1, 2))
	for i := 0; i < early; i++ {
		feed(r.appMessage(T + gap + i))
	}
	ws := r.drain()
	verifAssert(verifCountType(ws, "2") == 1, "wire-exactly-one-resendrequest")
	verifAssert(len(r.app.fromApp) == 0, "wire-early-messages-not-delivered-yet")
	// the missing numbers arrive
	want := early
	if ndBool("missing-arrive-as-gap-fill") {
		verifCase("gap-fill")
		g := r.inbound("4", T)
		g.Body.SetInt(tagNewSeqNo, T+gap)
		g.Body.SetBool(tagGapFillFlag, true)
		verifPossDup(g)
		feed(g)
	} else {
		verifCase("replays")
		want = early + gap
		for q := T; q < T+gap; q++ {
			m := r.appMessage(q)
			verifPossDup(m)
			feed(m)
		}
	}
	ws = r.drain()
	verifAssert(verifCountType(ws, "2") == 0, "wire-no-further-resendrequest")
	verifAssert(len(r.app.fromApp) == want, "wire-every-kept-message-delivered-once")
	r.checkDeliveries("wire")
	verifAssert(r.st.NextTargetMsgSeqNum() == T+gap+early, "wire-expects-one-past-highest-received")
	verifAssert(verifStateKind(r.s.State) == stInSession, "wire-returns-to-normal-when-complete")
}
