//go:build verif

package quickfix

import "time"

func init() {
	verifRegister("C06_gate", VerifHarness_C06_gate)
	verifRegister("C06_logon", VerifHarness_C06_logon)
}

type verifValidator struct {
	reject bool
	calls  int
}

func (v *verifValidator) Validate(*Message) MessageRejectError {
	v.calls++
	if v.reject {
		return ValueIsIncorrect(Tag(58))
	}
	return nil
}

const (
	c06OK = iota
	c06LogoutOnly
	c06RejectThenLogout
	c06PlainReject
	c06TooHigh
	c06DupIgnored
	c06DontCare
)

type c06Defects struct {
	d8, dcomp, d52, d34 int
	possDup             bool
}

// c06Apply mutates a well-formed inbound message according to the chosen defects; returns S-relation info.
func c06Apply(r *verifRig, m *Message, d c06Defects, T int) (S int, sReadable bool) {
	switch d.d8 {
	case 1:
		other := BeginStringFIX43
		m.Header.SetString(tagBeginString, other)
	case 2:
		m.Header.Remove(tagBeginString)
	}
	switch d.dcomp {
	case 1:
		m.Header.SetString(tagSenderCompID, "XX")
	case 2:
		m.Header.SetString(tagTargetCompID, "XX")
	case 3:
		m.Header.Remove(tagSenderCompID)
	case 4:
		m.Header.Remove(tagTargetCompID)
	case 5:
		m.Header.SetString(tagSenderCompID, "")
	case 6:
		m.Header.SetString(tagTargetCompID, "")
	}
	sent := time.Now().UTC()
	switch d.d52 {
	case 1:
		sent = sent.Add(-200 * time.Second)
		m.Header.SetField(tagSendingTime, FIXUTCTimestamp{Time: sent})
	case 2:
		sent = sent.Add(200 * time.Second)
		m.Header.SetField(tagSendingTime, FIXUTCTimestamp{Time: sent})
	case 3:
		m.Header.Remove(tagSendingTime)
	case 4:
		m.Header.SetString(tagSendingTime, "garbage")
	case 5:
		// centuries ahead: the difference to the clock no longer fits a time.Duration
		sent = time.Date(sent.Year()+400, time.March, 1, 12, 0, 0, 0, time.UTC)
		m.Header.SetField(tagSendingTime, FIXUTCTimestamp{Time: sent})
	case 6:
		sent = time.Date(sent.Year()-400, time.March, 1, 12, 0, 0, 0, time.UTC)
		m.Header.SetField(tagSendingTime, FIXUTCTimestamp{Time: sent})
	}
	S, sReadable = T, true
	switch d.d34 {
	case 1:
		S = ndInt("S-low", verifSeqLo()-1, 60)
		verifAssume(S < T)
		m.Header.SetInt(tagMsgSeqNum, S)
	case 2:
		S = ndInt("S-high", verifSeqLo(), 70)
		verifAssume(S > T)
		m.Header.SetInt(tagMsgSeqNum, S)
	case 3:
		m.Header.Remove(tagMsgSeqNum)
		sReadable = false
	case 4:
		m.Header.SetString(tagMsgSeqNum, "")
		sReadable = false
	case 5:
		m.Header.SetString(tagMsgSeqNum, "1x")
		sReadable = false
	}
	if d.d34 == 1 && !d.possDup && d.d52 == 0 && ndBool("stray-origsendingtime") {
		// not a retransmission (PossDupFlag absent or N) although an OrigSendingTime is present: still a too-low number
		if ndBool("possdup-explicitly-N") {
			m.Header.SetBool(tagPossDupFlag, false)
		}
		m.Header.SetField(tagOrigSendingTime, FIXUTCTimestamp{Time: sent.Add(-time.Minute)})
	}
	if d.possDup {
		// a consistent retransmission: OrigSendingTime precedes the (possibly shifted) SendingTime
		m.Header.SetBool(tagPossDupFlag, true)
		m.Header.SetField(tagOrigSendingTime, FIXUTCTimestamp{Time: sent.Add(-time.Minute)})
	}
	return
}

// c06Expect: the reaction FIX mandates, following the order of the session-level checks.
func c06Expect(d c06Defects, recovering, latencyOff bool, validatorRejects bool) (class int, reason int, refTag int) {
	switch {
	case d.d8 == 2:
		return c06PlainReject, 1, 8
	case d.d8 == 1:
		return c06LogoutOnly, 0, 0
	}
	switch d.dcomp {
	case 3:
		return c06PlainReject, 1, 49
	case 4:
		return c06PlainReject, 1, 56
	case 5:
		return c06PlainReject, 4, 49
	case 6:
		return c06PlainReject, 4, 56
	case 1, 2:
		return c06RejectThenLogout, 9, 0
	}
	if !recovering && !latencyOff {
		switch d.d52 {
		case 3:
			return c06PlainReject, 1, 52
		case 4:
			return c06PlainReject, 6, 52
		case 1, 2, 5, 6:
			return c06RejectThenLogout, 10, 0
		}
	}
	switch d.d34 {
	case 3:
		return c06PlainReject, 1, 34
	case 4, 5:
		return c06PlainReject, 6, 34
	case 1:
		if d.possDup {
			if d.d52 == 3 || d.d52 == 4 {
				// a duplicate whose SendingTime is absent or malformed while latency checking is off or a replay is in
				// progress: the duplicate handling reads SendingTime itself and rejects; FIX does not say whether the
				// duplicate rule or the malformed-field rule wins here, so only the callback gate is asserted
				return c06DontCare, 0, 0
			}
			return c06DupIgnored, 0, 0
		}
		return c06LogoutOnly, 0, 0
	case 2:
		return c06TooHigh, 0, 0
	}
	if validatorRejects {
		return c06PlainReject, 5, 58
	}
	return c06OK, 0, 0
}

func VerifHarness_C06_gate() {
	bs := verifPickBeginString()
	r := verifNewSession(false, bs)
	r.s.SkipCheckLatency = ndBool("SkipCheckLatency")
	var val *verifValidator
	switch verifConc(ndInt("validator", 0, 2)) {
	case 1:
		val = &verifValidator{}
		r.s.Validator = val
	case 2:
		val = &verifValidator{reject: true}
		r.s.Validator = val
	}
	T := ndInt("T", verifSeqLo(), 50)
	r.setCounters(T, ndInt("N", 1, 9))
	kind := verifConc(ndInt("state", 0, 2))
	recovering := false
	switch kind {
	case 0:
		r.verifLoggedOnState(stInSession, T)
	case 1:
		r.app.inLogon = true
		r.s.State = resendState{resendRangeEnd: T + 3}
		recovering = true
	case 2:
		r.verifLoggedOnState(stPendingInSession, T)
	}
	// one (quick) or two (thorough) defect dimensions deviate from a well-formed message
	var d c06Defects
	pick := func(dim int) {
		switch dim {
		case 0:
			d.d8 = verifConc(ndInt("defect-8", 0, 2))
		case 1:
			d.dcomp = verifConc(ndInt("defect-compid", 0, 6))
		case 2:
			d.d52 = verifConc(ndInt("defect-52", 0, 6))
		case 3:
			d.d34 = verifConc(ndInt("defect-34", 0, 5))
			d.possDup = d.d34 == 1 && ndBool("possdup")
		}
	}
	dim1 := verifConc(ndInt("dimension", 0, 3))
	pick(dim1)
	if verifTier() == 1 {
		dim2 := verifConc(ndInt("dimension2", 0, 3))
		verifAssume(dim2 > dim1)
		pick(dim2)
	} else if dim1 <= 1 && ndBool("plus-next-dimension") {
		// quick: the two pairs that exercise the ORDER of the identity checks (BeginString before CompIDs before SendingTime)
		pick(dim1 + 1)
	}
	admin := ndBool("admin-message")
	var m *Message
	bareResend := false
	if admin && d.d34 == 0 && ndBool("resendrequest-without-its-range") {
		// (a ResendRequest is exempt from the MsgSeqNum checks by design: those defects are not combined with it)
		// a second, message-level fault on top: the session-level checks still come first
		verifCase("resendrequest-without-range")
		bareResend = true
		m = r.inbound("2", T)
	} else if admin {
		verifCase("heartbeat")
		m = r.inbound("0", T)
	} else {
		verifCase("application")
		m = r.appMessage(T)
	}
	// routing fields to be reversed on a Reject
	m.Header.SetString(tagSenderSubID, "ss")
	m.Header.SetString(tagTargetSubID, "ts")
	m.Header.SetString(tagOnBehalfOfCompID, "ob")
	m.Header.SetString(tagDeliverToCompID, "dt")
	m.Header.SetString(tagSenderLocationID, "sl")
	m.Header.SetString(tagOnBehalfOfLocationID, "ol")
	m.Header.SetString(tagDeliverToLocationID, "dl")
	S, sReadable := c06Apply(r, m, d, T)
	class, reason, refTag := c06Expect(d, recovering, r.s.SkipCheckLatency, val != nil && val.reject)

	r.s.fixMsgIn(r.s, m)
	r.pump()
	ws := r.drain()
	T1 := r.st.NextTargetMsgSeqNum()
	callbacks := len(r.app.fromApp) + len(r.app.fromAdmin)
	nRej, nLogout := verifCountType(ws, "3"), verifCountType(ws, "5")

	// the gate: a callback implies every session-level check passed
	if callbacks > 0 {
		verifAssert(class == c06OK, "callback-only-after-all-session-checks")
	}
	switch class {
	case c06OK:
		verifCase("ok")
		if bareResend {
			verifAssert(nRej == 1 && nLogout == 0 && T1 == T+1, "resendrequest-without-range-rejected-as-such")
		} else {
			verifAssert(callbacks == 1 && T1 == T+1 && nRej == 0 && nLogout == 0, "good-message-delivered")
		}
	case c06LogoutOnly:
		verifCase("logout-only")
		verifAssert(nLogout == 1 && nRej == 0, "reaction-logout-only")
		verifAssert(T1 == T, "reaction-expected-number-not-advanced")
		verifAssert(verifStateKind(r.s.State) == stLogout, "reaction-enters-logout-state")
	case c06RejectThenLogout:
		verifCase("reject-then-logout")
		verifAssert(nRej == 1 && nLogout == 1 && len(ws) == 2 && ws[0].is("3") && ws[1].is("5"), "reaction-reject-then-logout")
		verifAssert(T1 == T, "reaction-expected-number-not-advanced")
		verifAssert(verifStateKind(r.s.State) == stLogout, "reaction-enters-logout-state")
		if len(ws) >= 1 && ws[0].is("3") && bs >= BeginStringFIX42 {
			rr, ok := ws[0].getInt(373)
			verifAssert(ok && rr == reason, "reaction-reject-reason")
		}
	case c06PlainReject:
		verifCase("plain-reject")
		verifAssert(nRej == 1 && nLogout == 0, "reaction-plain-reject-no-logout")
		if nRej == 1 && len(ws) >= 1 && ws[0].is("3") && bs >= BeginStringFIX42 {
			rt, ok := ws[0].getInt(371)
			verifAssert(ok && rt == refTag, "reject-names-the-field")
			rr, ok := ws[0].getInt(373)
			verifAssert(ok && rr == reason, "reaction-reject-reason")
		}
		verifAssert(verifStateKind(r.s.State) != stLogout && verifStateKind(r.s.State) != stLatent, "plain-reject-keeps-session")
	case c06TooHigh:
		verifCase("too-high")
		verifAssert(T1 == T && nRej == 0 && nLogout == 0, "too-high-not-consumed")
	case c06DontCare:
		verifCase("duplicate-with-unreadable-sendingtime")
		verifAssert(callbacks == 0, "callback-only-after-all-session-checks")
	case c06DupIgnored:
		verifCase("duplicate-ignored")
		verifAssert(T1 == T && nLogout == 0 && nRej == 0, "possdup-too-low-ignored")
	}
	// every Reject quotes the offending number and reverses the routing fields
	for i := range ws {
		if !ws[i].is("3") {
			continue
		}
		if sReadable {
			ref, ok := ws[i].getInt(45)
			verifAssert(ok && ref == S, "reject-quotes-msgseqnum")
		}
		chk := func(tag int, want string) {
			v, ok := ws[i].get(tag)
			verifAssert(ok && string(v) == want, "reject-routing-reversed")
		}
		chk(57, "ss")
		chk(50, "ts")
		chk(128, "ob")
		chk(115, "dt")
		chk(143, "sl")
		if bs != BeginStringFIX40 && d.d8 != 2 {
			// the location routing tags exist from FIX.4.1 on (the version is read from the rejected message itself:
			// nothing to go by when its BeginString is missing)
			chk(145, "ol")
			chk(144, "dl")
		}
	}
	verifObserve("T1", T1)
	verifObserve("sent", len(ws))
}

// C06_logon: a Logon establishes the session only if identity, time and validation checks pass.
func VerifHarness_C06_logon() {
	bs := verifPickBeginString()
	r := verifNewSession(false, bs)
	r.s.SkipCheckLatency = ndBool("SkipCheckLatency")
	T := ndInt("T", verifSeqLo(), 50)
	r.setCounters(T, ndInt("N", 1, 9))
	r.s.State = logonState{}
	var d c06Defects
	switch verifConc(ndInt("dimension", 0, 2)) {
	case 0:
		d.d8 = verifConc(ndInt("defect-8", 0, 2))
	case 1:
		d.dcomp = verifConc(ndInt("defect-compid", 0, 6))
	case 2:
		d.d52 = verifConc(ndInt("defect-52", 0, 6))
	}
	m := r.inbound("A", T)
	c06Apply(r, m, d, T)
	class, _, _ := c06Expect(d, false, r.s.SkipCheckLatency, false)
	r.s.fixMsgIn(r.s, m)
	r.pump()
	if r.app.onLogon > 0 {
		verifAssert(class == c06OK, "logon-establishes-session-only-after-all-checks")
	}
	if class == c06OK {
		verifAssert(r.app.onLogon == 1 && r.s.IsLoggedOn(), "good-logon-establishes-session")
	} else {
		verifAssert(!r.s.IsLoggedOn(), "bad-logon-does-not-log-on")
	}
}
