//go:build verif

package quickfix

import (
	"bytes"

	"github.com/quickfixgo/quickfix/datadictionary"
)

func init() { verifRegister("C13_rt", VerifHarness_C13_rt) }

const (
	c13Group, c13Delim, c13Opt, c13Nested, c13NDelim, c13NOpt, c13After = 453, 448, 447, 802, 523, 803, 452
	c13Other, c13OtherDelim, c13Follow                                  = 555, 600, 461
	c13Sibling, c13SDelim                                               = 804, 545
	c13Leg2, c13Leg3, c13OtherTail, c13Third, c13ThirdTail              = 601, 602, 670, 146, 336
)

func c13NestedTemplate() GroupTemplate {
	return GroupTemplate{GroupElement(c13NDelim), GroupElement(c13NOpt)}
}

func c13OtherTemplate() GroupTemplate {
	return GroupTemplate{GroupElement(c13OtherDelim), GroupElement(c13Leg2), GroupElement(c13Leg3), GroupElement(c13OtherTail)}
}

func c13Template() GroupTemplate {
	return GroupTemplate{GroupElement(c13Delim), GroupElement(c13Opt), NewRepeatingGroup(c13Nested, c13NestedTemplate()),
		NewRepeatingGroup(c13Sibling, GroupTemplate{GroupElement(c13SDelim)}), GroupElement(c13After)}
}

func c13Dict() *datadictionary.DataDictionary {
	ft := func(tag int) *datadictionary.FieldDef {
		return datadictionary.NewFieldDef(datadictionary.NewFieldType("F", tag, "STRING"), false)
	}
	gt := func(tag int, parts ...datadictionary.MessagePart) *datadictionary.FieldDef {
		return datadictionary.NewGroupFieldDef(datadictionary.NewFieldType("G", tag, "NUMINGROUP"), false, parts)
	}
	nested := gt(c13Nested, ft(c13NDelim), ft(c13NOpt))
	sibling := gt(c13Sibling, ft(c13SDelim))
	grp := gt(c13Group, ft(c13Delim), ft(c13Opt), nested, sibling, ft(c13After))
	// two groups open with the same component (as NoLegs / NoUnderlyings do with InstrumentLeg / UnderlyingInstrument
	// in the shipped dictionaries) and continue with members of their own
	leg := *datadictionary.NewComponent(datadictionary.NewComponentType("Leg", []datadictionary.MessagePart{ft(c13OtherDelim), ft(c13Leg2), ft(c13Leg3)}), false)
	other := gt(c13Other, leg, ft(c13OtherTail))
	third := gt(c13Third, leg, ft(c13ThirdTail))
	return &datadictionary.DataDictionary{
		Messages: map[string]*datadictionary.MessageDef{"D": datadictionary.NewMessageDef("D", "D", []datadictionary.MessagePart{ft(11), grp, ft(c13Follow), other, third})},
	}
}

type c13Nest struct {
	delim  []byte
	hasOpt bool
	opt    []byte
}

type c13Entry struct {
	delim    []byte
	hasOpt   bool
	opt      []byte
	nested   []c13Nest
	sibling  [][]byte // a second nested group right after the first
	hasAfter bool
	after    []byte
}

func VerifHarness_C13_rt() {
	// ---- the group to write
	n := verifConc(ndInt("entries", 0, 2))
	maxNested := 1 + verifTier()
	var want []c13Entry
	var lastNested *RepeatingGroup // a populated builder, possibly reused as the nested item of the reading template
	g := NewRepeatingGroup(c13Group, c13Template())
	for i := 0; i < n; i++ {
		e := c13Entry{delim: verifValueN("delim", 1)}
		ge := g.Add()
		ge.SetBytes(c13Delim, e.delim)
		if ndBool("has-optional") {
			e.hasOpt, e.opt = true, verifValueN("opt", 1)
			ge.SetBytes(c13Opt, e.opt)
		}
		k := verifConc(ndInt("nested-entries", 0, maxNested))
		if k > 0 {
			ng := NewRepeatingGroup(c13Nested, c13NestedTemplate())
			for j := 0; j < k; j++ {
				ne := c13Nest{delim: verifValueN("ndelim", 1)}
				nge := ng.Add()
				nge.SetBytes(c13NDelim, ne.delim)
				if ndBool("nested-has-optional") {
					ne.hasOpt, ne.opt = true, verifValueN("nopt", 1)
					nge.SetBytes(c13NOpt, ne.opt)
				}
				e.nested = append(e.nested, ne)
			}
			ge.SetGroup(ng)
			lastNested = ng
		}
		if ndBool("has-sibling-nested-group") {
			sg := NewRepeatingGroup(c13Sibling, GroupTemplate{GroupElement(c13SDelim)})
			v := verifValueN("sdelim", 1)
			sg.Add().SetBytes(c13SDelim, v)
			e.sibling = append(e.sibling, v)
			ge.SetGroup(sg)
		}
		if ndBool("has-after-nested") {
			e.hasAfter, e.after = true, verifValueN("after", 1)
			ge.SetBytes(c13After, e.after)
		}
		want = append(want, e)
	}
	// ---- the message around it
	m := NewMessage()
	m.Header.SetString(tagBeginString, "FIX.4.2")
	m.Header.SetString(tagMsgType, "D")
	m.Body.SetGroup(g)
	place := verifConc(ndInt("placement", 0, 4))
	follow := verifValueN("follow", 1)
	otherTail := place == 3 && ndBool("following-group-has-its-own-last-member")
	switch place {
	case 0:
		verifCase("group-last-in-body")
	case 1:
		verifCase("group-followed-by-field")
		m.Body.SetBytes(Tag(c13Follow), follow)
	case 2:
		verifCase("group-between-fields")
		m.Body.SetBytes(Tag(11), follow)
		m.Body.SetBytes(Tag(c13Follow), follow)
	case 4:
		// another top-level group directly before ours (lower counter tag, so it is written first)
		verifCase("group-preceded-by-group")
		pg := NewRepeatingGroup(c13Third, GroupTemplate{GroupElement(c13OtherDelim), GroupElement(c13ThirdTail)})
		pg.Add().SetBytes(c13OtherDelim, follow)
		m.Body.SetGroup(pg)
	case 3:
		verifCase("group-followed-by-group")
		og := NewRepeatingGroup(c13Other, c13OtherTemplate())
		oe := og.Add()
		oe.SetBytes(c13OtherDelim, follow)
		if otherTail {
			oe.SetBytes(c13OtherTail, follow)
		}
		m.Body.SetGroup(og)
	}
	wire := m.build()
	// ---- parse with / without the dictionary that defines the group
	var dict *datadictionary.DataDictionary
	if ndBool("with-dictionary") {
		verifCase("dictionary")
		dict = c13Dict()
	} else {
		verifCase("no-dictionary")
	}
	p := NewMessage()
	err := ParseMessageWithDataDictionary(p, bytes.NewBuffer(wire), nil, dict)
	verifAssert(err == nil, "group-message-parses")
	if err != nil {
		return
	}
	tmpl := c13Template()
	if lastNested != nil && place == 0 && ndBool("template-item-is-a-used-builder") {
		// hand-written code often keeps one object as builder and as template item: reading clones the item empty
		tmpl = GroupTemplate{GroupElement(c13Delim), GroupElement(c13Opt), lastNested,
			NewRepeatingGroup(c13Sibling, GroupTemplate{GroupElement(c13SDelim)}), GroupElement(c13After)}
	}
	got := NewRepeatingGroup(c13Group, tmpl)
	rerr := p.Body.GetGroup(got)
	verifAssert(rerr == nil, "group-readable-through-template")
	if rerr != nil {
		return
	}
	verifAssert(got.Len() == len(want), "same-number-of-entries")
	if got.Len() != len(want) {
		return
	}
	val := func(fm *FieldMap, tag Tag) ([]byte, bool) {
		var v FIXBytes
		if fm.GetField(tag, &v) != nil {
			return nil, false
		}
		return v, true
	}
	for i, e := range want {
		ge := got.Get(i)
		d, ok := val(&ge.FieldMap, c13Delim)
		verifAssert(ok && verifBytesEq(d, e.delim), "entry-delimiter-value")
		o, ok := val(&ge.FieldMap, c13Opt)
		verifAssert(ok == e.hasOpt && (!ok || verifBytesEq(o, e.opt)), "entry-optional-member")
		a, ok := val(&ge.FieldMap, c13After)
		verifAssert(ok == e.hasAfter && (!ok || verifBytesEq(a, e.after)), "entry-member-after-nested-group")
		sgr := NewRepeatingGroup(c13Sibling, GroupTemplate{GroupElement(c13SDelim)})
		serr := ge.GetGroup(sgr)
		if len(e.sibling) == 0 {
			verifAssert(serr != nil || sgr.Len() == 0, "sibling-nested-group-absent")
		} else {
			verifAssert(serr == nil && sgr.Len() == 1, "sibling-nested-group-read-back")
			if serr == nil && sgr.Len() == 1 {
				d, ok := val(&sgr.Get(0).FieldMap, c13SDelim)
				verifAssert(ok && verifBytesEq(d, e.sibling[0]), "sibling-nested-group-value")
			}
		}
		ng := NewRepeatingGroup(c13Nested, c13NestedTemplate())
		nerr := ge.GetGroup(ng)
		if len(e.nested) == 0 {
			verifAssert(nerr != nil || ng.Len() == 0, "nested-group-absent")
			continue
		}
		verifAssert(nerr == nil && ng.Len() == len(e.nested), "nested-same-number-of-entries")
		if nerr != nil || ng.Len() != len(e.nested) {
			continue
		}
		for j, ne := range e.nested {
			nge := ng.Get(j)
			d, ok := val(&nge.FieldMap, c13NDelim)
			verifAssert(ok && verifBytesEq(d, ne.delim), "nested-delimiter-value")
			o, ok := val(&nge.FieldMap, c13NOpt)
			verifAssert(ok == ne.hasOpt && (!ok || verifBytesEq(o, ne.opt)), "nested-optional-member")
		}
	}
	// parsed with the dictionary, the members of the group are part of the group field, not plain body fields, and a
	// copy of the message still holds the whole group
	if dict != nil && len(want) > 0 {
		verifAssert(!p.Body.Has(c13Delim) && !p.Body.Has(c13Nested) && !p.Body.Has(c13Sibling) && !p.Body.Has(c13SDelim) && !p.Body.Has(c13After), "group-members-not-plain-body-fields")
		cp := NewMessage()
		p.CopyInto(cp)
		cg := NewRepeatingGroup(c13Group, c13Template())
		verifAssert(cp.Body.GetGroup(cg) == nil && cg.Len() == len(want), "copied-message-keeps-the-group")
	}
	// fields around the group are still found in the body
	switch place {
	case 4:
		pg := NewRepeatingGroup(c13Third, GroupTemplate{GroupElement(c13OtherDelim), GroupElement(c13ThirdTail)})
		verifAssert(p.Body.GetGroup(pg) == nil && pg.Len() == 1, "preceding-group-still-readable")
	case 1:
		v, ok := val(&p.Body.FieldMap, c13Follow)
		verifAssert(ok && verifBytesEq(v, follow), "field-next-to-group-still-in-body")
	case 2:
		v, ok := val(&p.Body.FieldMap, 11)
		w, ok2 := val(&p.Body.FieldMap, c13Follow)
		verifAssert(ok && ok2 && verifBytesEq(v, follow) && verifBytesEq(w, follow), "field-next-to-group-still-in-body")
	case 3:
		og := NewRepeatingGroup(c13Other, c13OtherTemplate())
		verifAssert(p.Body.GetGroup(og) == nil && og.Len() == 1, "following-group-still-readable")
		if og.Len() == 1 {
			v, ok := val(&og.Get(0).FieldMap, c13OtherTail)
			verifAssert(ok == otherTail && (!ok || verifBytesEq(v, follow)), "following-group-last-member")
		}
		if dict != nil {
			verifAssert(!p.Body.Has(c13OtherDelim) && !p.Body.Has(c13OtherTail), "group-members-not-plain-body-fields")
			cp := NewMessage()
			p.CopyInto(cp)
			cg := NewRepeatingGroup(c13Other, c13OtherTemplate())
			cerr := cp.Body.GetGroup(cg)
			verifAssert(cerr == nil && cg.Len() == 1, "copied-message-keeps-the-group")
			if cerr == nil && cg.Len() == 1 {
				_, ok := val(&cg.Get(0).FieldMap, c13OtherTail)
				verifAssert(ok == otherTail, "copied-message-keeps-the-group")
			}
		}
	}
	// the parsed message is edited: its group is replaced by a longer one, and the message goes through the wire again
	if dict != nil && (place == 1 || place == 3) && ndBool("group-replaced-in-the-parsed-message") {
		verifCase("group-replaced")
		g2 := NewRepeatingGroup(c13Group, c13Template())
		for i := 0; i < len(want)+1; i++ {
			e := g2.Add()
			e.SetString(c13Delim, "z")
			e.SetString(c13Opt, "y")
		}
		p.Body.SetGroup(g2)
		q := NewMessage()
		err2 := ParseMessageWithDataDictionary(q, bytes.NewBuffer(p.build()), nil, dict)
		verifAssert(err2 == nil, "edited-message-parses")
		if err2 != nil {
			return
		}
		got2 := NewRepeatingGroup(c13Group, c13Template())
		verifAssert(q.Body.GetGroup(got2) == nil && got2.Len() == len(want)+1, "replacement-group-read-back")
		if place == 1 {
			v, ok := val(&q.Body.FieldMap, c13Follow)
			verifAssert(ok && verifBytesEq(v, follow), "field-next-to-replaced-group-still-in-body")
		} else {
			og := NewRepeatingGroup(c13Other, c13OtherTemplate())
			verifAssert(q.Body.GetGroup(og) == nil && og.Len() == 1, "group-next-to-replaced-group-still-readable")
			if og.Len() == 1 {
				v, ok := val(&og.Get(0).FieldMap, c13OtherDelim)
				verifAssert(ok && verifBytesEq(v, follow), "group-next-to-replaced-group-still-readable")
			}
		}
	}
	verifObserve("entries", got.Len())
}
