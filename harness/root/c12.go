//go:build verif

package quickfix

import (
	"errors"
	"io"
)

func init() {
	verifRegister("C12_readmore", VerifHarness_C12_readmore)
	verifRegister("C12_frames", VerifHarness_C12_frames)
	verifRegister("C12_cuts", VerifHarness_C12_cuts)
	verifRegister("C12_any", VerifHarness_C12_any)
}

// c12OneShot delivers n symbolic bytes once (n chosen by the harness), with or without an error.
type c12OneShot struct {
	n         int
	withErr   bool
	delivered []byte
	gotLen    int
	calls     int
}

var errC12 = errors.New("reader failed")

func (r *c12OneShot) Read(p []byte) (int, error) {
	r.calls++
	r.gotLen = len(p)
	n := r.n
	if n > len(p) {
		n = len(p)
	}
	r.delivered = ndBytes("delivered", n)
	copy(p, r.delivered)
	if r.withErr {
		return n, errC12
	}
	return n, nil
}

// C12_readmore — the inductive core: from ANY parser state satisfying the representation invariant one
// readMore keeps what was buffered, appends exactly what the reader delivered and never offers the reader
// an empty slice (so a compliant reader always makes progress).
func VerifHarness_C12_readmore() {
	B := verifConc(ndInt("bigBufferLen", 0, verifBound(6, 10)))
	p := &parser{}
	if B > 0 {
		p.bigBuffer = ndBytes("big", B)
		o := verifConc(ndInt("off", 0, B))
		l := verifConc(ndInt("len", 0, B-o))
		p.buffer = p.bigBuffer[o : o+l]
		if ndBool("fresh") {
			// the state right after newParser+first use: empty window, or a ReadMessage remainder
			verifCase("window")
		}
	} else {
		verifCase("initial")
	}
	old := append([]byte{}, p.buffer...)
	rd := &c12OneShot{n: verifConc(ndInt("n", 0, 12)), withErr: ndBool("err")}
	p.reader = rd
	n, err := p.readMore()
	verifAssert(rd.calls == 1, "reader-called-once")
	verifAssert(rd.gotLen > 0, "reader-never-offered-empty-slice")
	verifAssert(n == len(rd.delivered) && (err != nil) == rd.withErr, "result-is-readers-result")
	verifAssert(len(p.buffer) == len(old)+n, "buffer-grows-by-n")
	if len(p.buffer) == len(old)+n {
		verifAssert(verifEqBytes(p.buffer[:len(old)], old), "buffered-bytes-kept")
		verifAssert(verifEqBytes(p.buffer[len(old):], rd.delivered), "delivered-bytes-appended")
	}
	verifAssert(cap(p.buffer) <= len(p.bigBuffer) && len(p.bigBuffer) > 0, "window-inside-bigbuffer")
	verifObserve("n", n)
}

// c12Chunked delivers a fixed stream in chunks of given sizes (then the rest in one piece), then EOF.
type c12Chunked struct {
	data  []byte
	sizes []int
	k     int
}

func (r *c12Chunked) Read(p []byte) (int, error) {
	if len(r.data) == 0 {
		return 0, io.EOF
	}
	n := len(r.data)
	if r.k < len(r.sizes) && r.sizes[r.k] < n {
		n = r.sizes[r.k]
	}
	r.k++
	if n > len(p) {
		n = len(p)
	}
	copy(p, r.data[:n])
	r.data = r.data[n:]
	return n, nil
}

// c12Uniform delivers k bytes per read.
type c12Uniform struct {
	data        []byte
	k           int
	eofWithData bool // the last bytes are returned together with io.EOF (allowed by io.Reader)
}

func (r *c12Uniform) Read(p []byte) (int, error) {
	if len(r.data) == 0 {
		return 0, io.EOF
	}
	n := r.k
	if n > len(r.data) {
		n = len(r.data)
	}
	if n > len(p) {
		n = len(p)
	}
	copy(p, r.data[:n])
	r.data = r.data[n:]
	if r.eofWithData && len(r.data) == 0 {
		return n, io.EOF
	}
	return n, nil
}

// c12Drain reads frames until the terminal error (at most max frames).
func c12Drain(p *parser, max int) (frames [][]byte, err error) {
	for i := 0; i <= max; i++ {
		b, e := p.ReadMessage()
		if e != nil {
			return frames, e
		}
		frames = append(frames, append([]byte{}, b.Bytes()...))
	}
	verifAssert(false, "more-frames-than-messages")
	return
}

func c12Same(a, b [][]byte, ea, eb error, pfx string) {
	verifAssert(len(a) == len(b), pfx+"-same-number-of-frames")
	if len(a) == len(b) {
		for i := range a {
			verifAssert(verifEqBytes(a[i], b[i]), pfx+"-same-frames")
		}
	}
	// errors are compared by text: "No length given"/"Invalid length" are fresh objects on every call
	verifAssert(ea != nil && eb != nil && ea.Error() == eb.Error(), pfx+"-same-terminal-error")
}

// c12Msg: a minimal message with symbolic MsgType byte, symbolic checksum text and a length digit that is
// correct (5) or, when wrongLen, any digit 1-9.
func c12Msg(name string, wrongLen bool) []byte {
	x := ndByte(name + ".type")
	verifAssume(x != verifSOH)
	cs := verifValueN(name+".cksum", 3)
	l := byte('5')
	if wrongLen {
		l = byte('0' + ndInt(name+".lendigit", 1, 9))
	}
	m := []byte("8=F\x019=")
	m = append(m, l, verifSOH, '3', '5', '=', x, verifSOH, '1', '0', '=')
	m = append(m, cs...)
	return append(m, verifSOH)
}

// junk without a BeginString marker: up to n bytes, none of them '8'
func c12Junk(name string, n int) []byte {
	k := verifConc(ndInt(name+".len", 0, n))
	j := ndBytes(name, k)
	for _, c := range j {
		verifAssume(c != '8')
	}
	return j
}

func c12Stream(wrongLen bool) (stream []byte, msgs [][]byte) {
	m1 := c12Msg("m1", wrongLen)
	m2 := c12Msg("m2", false)
	stream = append(stream, c12Junk("junk0", 1+verifTier())...)
	stream = append(stream, m1...)
	stream = append(stream, c12Junk("junk1", 1+verifTier())...)
	stream = append(stream, m2...)
	stream = append(stream, c12Junk("junk2", verifTier())...)
	return stream, [][]byte{m1, m2}
}

// C12_frames: uniform chunk size k (1..len) vs. one read; small initial buffer so shift and grow both happen.
func VerifHarness_C12_frames() {
	wrongLen := ndBool("wrong-length")
	stream, msgs := c12Stream(wrongLen)
	B := verifConc(ndInt("bigBufferLen", 1, 2+2*verifTier()))
	k := verifConc(ndInt("chunk", 1, len(stream)))
	ref := &parser{reader: &c12Uniform{data: stream, k: len(stream)}, bigBuffer: make([]byte, 96)}
	fa, ea := c12Drain(ref, 2)
	p := &parser{reader: &c12Uniform{data: stream, k: k, eofWithData: ndBool("eof-with-last-chunk")}, bigBuffer: make([]byte, B)}
	fb, eb := c12Drain(p, 2)
	c12Same(fa, fb, ea, eb, "chunking")
	if !wrongLen {
		verifCase("well-formed")
		verifAssert(len(fb) == 2 && eb == io.EOF, "frames-are-the-messages")
		if len(fb) == 2 {
			verifAssert(verifEqBytes(fb[0], msgs[0]) && verifEqBytes(fb[1], msgs[1]), "frames-byte-identical")
		}
	} else {
		verifCase("arbitrary-length-digit")
	}
	verifObserve("frames", len(fb))
}

// C12_cuts: one message plus junk, every pair of cut points.
func VerifHarness_C12_cuts() {
	m1 := c12Msg("m1", verifTier() == 1 && ndBool("wrong-length"))
	var stream []byte
	stream = append(stream, c12Junk("junk0", 1)...)
	stream = append(stream, m1...)
	stream = append(stream, c12Junk("junk1", verifTier())...)
	c1 := verifConc(ndInt("cut1", 1, len(stream)))
	c2 := verifConc(ndInt("cut2", 1, len(stream)-c1+1))
	B := verifConc(ndInt("bigBufferLen", 1, 1+verifTier()))
	ref := &parser{reader: &c12Uniform{data: stream, k: len(stream)}, bigBuffer: make([]byte, 96)}
	fa, ea := c12Drain(ref, 1)
	p := &parser{reader: &c12Chunked{data: stream, sizes: []int{c1, c2}}, bigBuffer: make([]byte, B)}
	fb, eb := c12Drain(p, 1)
	c12Same(fa, fb, ea, eb, "cuts")
}

// C12_any: a short, entirely symbolic stream: framing is a function of content only.
func VerifHarness_C12_any() {
	n := verifBound(10, 13)
	stream := ndBytes("s", n)
	k := verifConc(ndInt("chunk", 1, 3))
	ref := &parser{reader: &c12Uniform{data: stream, k: n}, bigBuffer: make([]byte, 96)}
	fa, ea := c12Drain(ref, 1)
	p := &parser{reader: &c12Uniform{data: stream, k: k}, bigBuffer: make([]byte, 2)}
	fb, eb := c12Drain(p, 1)
	c12Same(fa, fb, ea, eb, "any")
}

func init() { verifRegister("C12_readloop", VerifHarness_C12_readloop) }

// C12_readloop: connection.go hands every frame to the session in order and closes the channel after the terminal error.
func VerifHarness_C12_readloop() {
	stream, msgs := c12Stream(false)
	k := verifConc(ndInt("chunk", 1, 4))
	p := &parser{reader: &c12Uniform{data: stream, k: k}, bigBuffer: make([]byte, 2)}
	in := make(chan fixIn, 4)
	readLoop(p, in, nullLog{})
	for i := 0; i < 2; i++ {
		f, ok := <-in
		verifAssert(ok, "readloop-delivers-every-frame")
		if ok {
			verifAssert(verifEqBytes(f.bytes.Bytes(), msgs[i]), "readloop-frames-in-order")
		}
	}
	_, ok := <-in
	verifAssert(!ok, "readloop-closes-channel-after-error")
}
