//go:build verif

package quickfix

import (
	"bytes"
	"time"

	"github.com/quickfixgo/quickfix/internal"
)

func init() {
	verifRegister("C20_step", VerifHarness_C20_step)
	verifRegister("C20_logon", VerifHarness_C20_logon)
	// timer arming is observed through the overlay hook in internal/event_timer.go
	internal.VerifTimerHook = func(t *internal.EventTimer, d time.Duration) {
		verifTimerLog[t] = append(verifTimerLog[t], d)
	}
}

var verifTimerLog = map[*internal.EventTimer][]time.Duration{}

func (r *verifRig) withTimers() {
	r.s.stateTimer = &internal.EventTimer{}
	r.s.peerTimer = &internal.EventTimer{}
}

func c20PeerInterval(hb time.Duration) time.Duration {
	return time.Duration(float64(1.2) * float64(hb))
}

func VerifHarness_C20_step() {
	r := verifNewSession(ndBool("initiator"), verifPickBeginString())
	r.withTimers()
	if verifTier() == 1 {
		// thorough: any whole number of seconds (the 1.2 factor is float arithmetic: the value is case-split)
		r.s.HeartBtInt = time.Duration(ndInt("heartbeat-seconds", 1, 45)) * time.Second
	} else if ndBool("one-second-heartbeat") {
		r.s.HeartBtInt = time.Second
	}
	hb := r.s.HeartBtInt
	T := ndInt("T", verifSeqLo(), 40)
	r.setCounters(T, ndInt("N", 1, 9))
	kind := verifConc(ndInt("state", 0, 3))
	r.verifLoggedOnState(kind, T)
	pending := kind == stPendingInSession || kind == stPendingResend
	recovering := kind == stResend || kind == stPendingResend
	var rs0 resendState
	if recovering {
		if p, ok := r.s.State.(pendingTimeout); ok {
			rs0 = p.sessionState.(resendState)
		} else {
			rs0 = r.s.State.(resendState)
		}
	}
	stash0 := len(rs0.messageStash)

	ev := verifConc(ndInt("event", 0, 9))
	var reqID []byte
	viaIncoming := false
	switch ev {
	case 0:
		verifCase("testrequest-in-sequence")
		m := r.inbound("1", T)
		reqID = verifValueN("testreqid", 2)
		m.Body.SetBytes(tagTestReqID, reqID)
		r.s.fixMsgIn(r.s, m)
	case 1:
		verifCase("need-heartbeat")
		r.s.Timeout(r.s, internal.NeedHeartbeat)
	case 2:
		verifCase("peer-timeout")
		r.s.Timeout(r.s, internal.PeerTimeout)
	case 3:
		verifCase("inbound-heartbeat-through-Incoming")
		viaIncoming = true
		m := r.inbound("0", T)
		r.s.Incoming(r.s, fixIn{bytes: bytes.NewBuffer(m.build()), receiveTime: time.Now()})
	case 4:
		verifCase("inbound-early-message")
		m := r.appMessage(T + 5 + stash0)
		if recovering {
			// above everything already kept
			for k := range rs0.messageStash {
				verifAssume(T+5+stash0 > k)
			}
		}
		r.s.fixMsgIn(r.s, m)
	case 5:
		verifCase("inbound-duplicate")
		// a proper retransmission of something already consumed: ignored, but it is inbound traffic all the same
		verifAssume(T >= 2)
		m := r.appMessage(T - 1)
		verifPossDup(m)
		r.s.fixMsgIn(r.s, m)
	case 6:
		verifCase("inbound-gapfill-in-sequence")
		m := r.inbound("4", T)
		m.Body.SetInt(tagNewSeqNo, T+2)
		m.Body.SetBool(tagGapFillFlag, true)
		r.s.fixMsgIn(r.s, m)
	case 7:
		verifCase("inbound-application-message-in-sequence")
		r.s.fixMsgIn(r.s, r.appMessage(T))
	case 9:
		verifCase("inbound-damaged-frame-through-Incoming")
		// bytes that do not parse (BodyLength disagrees) are still bytes from a living peer
		viaIncoming = true
		m := r.inbound("0", T)
		b := m.build()
		bad := append([]byte{}, b...)
		for i := range bad {
			if i+1 < len(bad) && bad[i] == '9' && bad[i+1] == '=' && (i == 0 || bad[i-1] == 1) {
				bad[i+2] = '9' // first digit of the BodyLength value
				break
			}
		}
		r.s.Incoming(r.s, fixIn{bytes: bytes.NewBuffer(bad), receiveTime: time.Now()})
	case 8:
		verifCase("inbound-resendrequest")
		m := r.inbound("2", T)
		m.Body.SetInt(tagBeginSeqNo, 1)
		m.Body.SetInt(tagEndSeqNo, 0)
		r.s.fixMsgIn(r.s, m)
	}
	r.pump()
	ws := r.drain()
	kind1 := verifStateKind(r.s.State)
	nHB, nTR, nRR := verifCountType(ws, "0"), verifCountType(ws, "1"), verifCountType(ws, "2")

	// every wire send re-arms the heartbeat timer to HeartBtInt
	st := verifTimerLog[r.s.stateTimer]
	verifAssert(len(st) == len(ws), "each-send-rearms-heartbeat-timer")
	for _, d := range st {
		verifAssert(d == hb, "heartbeat-timer-armed-to-interval")
	}
	pt := verifTimerLog[r.s.peerTimer]

	switch ev {
	case 0:
		verifAssert(nHB == 1 && len(ws) == 1, "testrequest-answered-by-one-heartbeat")
		if nHB == 1 && len(ws) == 1 {
			got, ok := ws[0].get(112)
			verifAssert(ok && verifBytesEq(got, reqID), "heartbeat-carries-same-testreqid")
		}
		verifAssert(r.st.NextTargetMsgSeqNum() >= T+1, "testrequest-consumed")
	case 1:
		if pending {
			verifAssert(len(ws) == 0, "no-heartbeat-while-test-request-pending")
		} else {
			verifAssert(nHB == 1 && len(ws) == 1, "idle-interval-sends-one-heartbeat")
			if len(ws) == 1 {
				_, has := ws[0].get(112)
				verifAssert(!has, "idle-heartbeat-has-no-testreqid")
			}
		}
		verifAssert(kind1 == kind, "heartbeat-timer-keeps-state")
	case 2:
		if !pending {
			verifAssert(nTR == 1 && len(ws) == 1, "silent-peer-gets-one-testrequest")
			if len(ws) == 1 {
				id, has := ws[0].get(112)
				verifAssert(has && len(id) > 0, "testrequest-has-id")
			}
			verifAssert(len(pt) == 1 && pt[0] == c20PeerInterval(hb), "peer-timer-rearmed-to-1.2-intervals")
			if recovering {
				verifAssert(kind1 == stPendingResend, "pending-wraps-the-recovery")
			} else {
				verifAssert(kind1 == stPendingInSession, "pending-wraps-normal-state")
			}
		} else {
			verifAssert(kind1 == stLatent, "second-peer-timeout-disconnects")
			verifAssert(r.app.onLogout == 1, "dead-peer-notifies-application-once")
			verifAssert(r.s.messageOut == nil, "dead-peer-closes-connection")
			verifAssert(len(ws) == 0, "dead-peer-sends-nothing")
		}
	case 3:
		verifAssert(len(pt) == 1 && pt[0] == c20PeerInterval(hb), "incoming-rearms-peer-timer-once")
		verifAssert(kind1 == stInSession || kind1 == stResend, "inbound-message-cancels-pending-disconnect")
	case 4:
		verifAssert(kind1 == stResend, "inbound-message-cancels-pending-disconnect")
		if recovering {
			verifAssert(nRR == 0, "recovery-not-disturbed-no-extra-resendrequest")
			rs1, ok := r.s.State.(resendState)
			verifAssert(ok && rs1.resendRangeEnd == rs0.resendRangeEnd && rs1.currentResendRangeEnd == rs0.currentResendRangeEnd, "recovery-not-disturbed-ranges-kept")
			verifAssert(ok && len(rs1.messageStash) == stash0+1, "recovery-not-disturbed-stash-kept")
		} else {
			verifAssert(nRR == 1, "gap-requests-resend")
		}
	}
	if ev == 9 {
		verifAssert(len(pt) == 1 && pt[0] == c20PeerInterval(hb), "incoming-rearms-peer-timer-once")
		verifAssert(r.st.NextTargetMsgSeqNum() == T && len(ws) == 0, "damaged-frame-otherwise-ignored")
	}
	if ev >= 5 && ev <= 8 {
		verifAssert(kind1 != stPendingInSession && kind1 != stPendingResend, "inbound-message-cancels-pending-disconnect")
		if ev == 5 {
			verifAssert(r.st.NextTargetMsgSeqNum() == T && len(ws) == 0, "duplicate-ignored")
			if recovering {
				verifAssert(kind1 == stResend, "recovery-not-disturbed-by-duplicate")
			}
		}
	}
	if ev == 3 || ev == 4 || ev == 0 {
		if recovering && kind1 != stLatent && kind1 != stLogout && ev != 4 {
			_ = viaIncoming
		}
	}
	verifObserve("sent", len(ws))
}

// C20_logon: an acceptor adopts the interval announced in the peer's Logon unless configured to override.
func VerifHarness_C20_logon() {
	initiator := ndBool("initiator")
	r := verifNewSession(initiator, verifPickBeginString())
	r.withTimers()
	r.s.HeartBtIntOverride = ndBool("HeartBtIntOverride")
	T := ndInt("T", verifSeqLo(), 40)
	r.setCounters(T, ndInt("N", 1, 9))
	r.s.State = logonState{}
	m := r.inbound("A", T)
	announced := ndInt("108", 1, 12+108*verifTier())
	m.Body.SetInt(tagHeartBtInt, announced)
	r.s.fixMsgIn(r.s, m)
	r.pump()
	verifAssume(r.s.IsLoggedOn())
	want := 30 * time.Second
	if !initiator && !r.s.HeartBtIntOverride {
		want = time.Duration(announced) * time.Second
	}
	verifAssert(r.s.HeartBtInt == want, "heartbeat-interval-from-logon-unless-overridden")
	pt := verifTimerLog[r.s.peerTimer]
	verifAssert(len(pt) == 1 && pt[0] == c20PeerInterval(want), "logon-arms-peer-timer-to-1.2-intervals")
	ws := r.drain()
	if !initiator {
		verifAssert(len(ws) >= 1 && ws[0].is("A"), "acceptor-replies-logon")
		if len(ws) >= 1 {
			got, ok := ws[0].getInt(108)
			verifAssert(ok && time.Duration(got)*time.Second == want, "reply-logon-announces-the-interval-in-use")
		}
	}
}
