//go:build verif

package quickfix

import (
	"time"

	"github.com/quickfixgo/quickfix/internal"
)

// ---------------------------------------------------------------------------------------------
// Session rig: a session literal built the way the repository's own SessionSuiteRig builds one
// (real memoryStore, real nullLog, recording Application, buffered messageOut).

type verifDelivery struct {
	seq      int // MsgSeqNum of the delivered message
	expected int // store.NextTargetMsgSeqNum() at the moment of the callback
	possDup  bool
}

type verifApp struct {
	s                   *session
	fromApp             []verifDelivery
	fromAdmin           []verifDelivery
	onLogon             int
	onLogout            int
	toAdmin             int
	toApp               int
	inLogon             bool // ghost: between OnLogon and OnLogout
	fromAppOutsideLogon int
	// behaviour knobs
	appMayReject   bool // FromApp may return a session-level or business reject
	toAppMayRefuse bool // ToApp may return an error (ErrDoNotSend)
	refusals       int
	adminRejects   int // FromAdmin returned a reject (thorough tier only)
	ids            []string // ClOrdID (11) of every message handed to FromApp, in order
	logonAsksReset bool     // ToAdmin adds ResetSeqNumFlag=Y to an outgoing Logon (an application may decorate admin messages)
}

func (a *verifApp) OnCreate(SessionID) {}
func (a *verifApp) OnLogon(SessionID) {
	a.onLogon++
	a.inLogon = true
}
func (a *verifApp) OnLogout(SessionID) {
	a.onLogout++
	a.inLogon = false
}
func (a *verifApp) ToAdmin(m *Message, _ SessionID) {
	a.toAdmin++
	if a.logonAsksReset {
		if t, err := m.Header.GetBytes(tagMsgType); err == nil && len(t) == 1 && t[0] == 'A' {
			m.Body.SetBool(tagResetSeqNumFlag, true)
		}
	}
}
func (a *verifApp) ToApp(m *Message, _ SessionID) error {
	a.toApp++
	if a.toAppMayRefuse && ndBool("toapp-refuses") {
		a.refusals++
		return ErrDoNotSend
	}
	return nil
}
func (a *verifApp) record(m *Message) verifDelivery {
	seq, _ := m.Header.GetInt(tagMsgSeqNum)
	pd, _ := m.Header.GetBool(tagPossDupFlag)
	return verifDelivery{seq: seq, expected: a.s.store.NextTargetMsgSeqNum(), possDup: pd}
}
func (a *verifApp) FromAdmin(m *Message, _ SessionID) MessageRejectError {
	a.fromAdmin = append(a.fromAdmin, a.record(m))
	if a.appMayReject && verifTier() == 1 && ndBool("fromadmin-rejects") {
		a.adminRejects++
		return ValueIsIncorrect(Tag(58))
	}
	return nil
}
func (a *verifApp) FromApp(m *Message, _ SessionID) MessageRejectError {
	a.fromApp = append(a.fromApp, a.record(m))
	if id, err := m.Body.GetString(Tag(11)); err == nil {
		a.ids = append(a.ids, id)
	}
	if !a.inLogon {
		a.fromAppOutsideLogon++
	}
	if a.appMayReject {
		switch verifConc(ndInt("fromapp-verdict", 0, 1+verifTier())) {
		case 1:
			return ValueIsIncorrect(Tag(58))
		case 2:
			return NewBusinessMessageRejectError("business", 0, nil)
		}
	}
	return nil
}

type verifRig struct {
	allEventTypes bool // verifEvent also generates 35=j and 35=3 inbound messages
	richEvents    bool // verifEvent also varies two-letter application types and a ResendRequest without its range
	s             *session
	app           *verifApp
	out           chan []byte
	st            *memoryStore
}

var verifBeginStrings = [4]string{BeginStringFIX41, BeginStringFIX42, BeginStringFIX44, BeginStringFIXT11}

// verifNewSession: role 0 = acceptor, 1 = initiator; connected (messageOut open) and not yet in any state.
func verifNewSession(initiator bool, beginString string) *verifRig {
	app := &verifApp{}
	out := make(chan []byte, 24)
	st := &memoryStore{}
	st.Reset()
	s := &session{
		sessionID:    SessionID{BeginString: beginString, TargetCompID: "TW", SenderCompID: "ISLD"},
		store:        st,
		application:  app,
		log:          nullLog{},
		messageOut:   out,
		sessionEvent: make(chan internal.Event, 8),
		messageEvent: make(chan bool, 1),
	}
	s.MaxLatency = 120 * time.Second
	s.HeartBtInt = 30 * time.Second
	s.LogoutTimeout = 2 * time.Second
	s.LogonTimeout = 10 * time.Second
	s.InitiateLogon = initiator
	if beginString == BeginStringFIXT11 {
		s.DefaultApplVerID = "7"
		s.targetDefaultApplVerID = "7"
	}
	app.s = s
	return &verifRig{s: s, app: app, out: out, st: st}
}

func verifPickBeginString() string {
	return verifBeginStrings[verifConc(ndInt("beginstring", 0, 3))]
}

// setCounters puts symbolic next-expected numbers into the real store.
func (r *verifRig) setCounters(T, N int) {
	r.st.SetNextTargetMsgSeqNum(T)
	r.st.SetNextSenderMsgSeqNum(N)
}

// inbound builds a message as the counterparty would send it (identity mirrored, fresh SendingTime).
func (r *verifRig) inbound(msgType string, seq int) *Message {
	m := NewMessage()
	m.Header.SetString(tagBeginString, r.s.sessionID.BeginString)
	m.Header.SetString(tagMsgType, msgType)
	m.Header.SetString(tagSenderCompID, r.s.sessionID.TargetCompID)
	m.Header.SetString(tagTargetCompID, r.s.sessionID.SenderCompID)
	m.Header.SetField(tagSendingTime, FIXUTCTimestamp{Time: time.Now().UTC()})
	m.Header.SetInt(tagMsgSeqNum, seq)
	if msgType == "A" {
		m.Body.SetString(tagEncryptMethod, "0")
		m.Body.SetInt(tagHeartBtInt, 30)
		if r.s.sessionID.BeginString == BeginStringFIXT11 {
			m.Body.SetString(tagDefaultApplVerID, "7")
		}
	}
	return m
}

// possDup marks a message as a retransmission with a plausible OrigSendingTime.
func verifPossDup(m *Message) {
	m.Header.SetBool(tagPossDupFlag, true)
	m.Header.SetField(tagOrigSendingTime, FIXUTCTimestamp{Time: time.Now().UTC().Add(-time.Minute)})
}

// pump does what session.run does on a messageEvent.
func (r *verifRig) pump() {
	select {
	case <-r.s.messageEvent:
		r.s.SendAppMessages(r.s)
	default:
	}
}

type verifWire struct {
	raw     []byte
	fs      []verifTV
	msgType []byte
	seq     int
	possDup bool
}

func (w *verifWire) get(tag int) ([]byte, bool) {
	for _, f := range w.fs {
		if f.tagOK && f.tag == tag {
			return f.val, true
		}
	}
	return nil, false
}

func (w *verifWire) getInt(tag int) (int, bool) {
	v, ok := w.get(tag)
	if !ok {
		return 0, false
	}
	neg := false
	if len(v) > 0 && v[0] == '-' {
		neg = true
		v = v[1:]
	}
	n, ok := verifDec(v)
	if neg {
		n = -n
	}
	return n, ok
}

func (w *verifWire) is(t string) bool { return string(w.msgType) == t }

// drain reads everything written to the connection so far.
func (r *verifRig) drain() []verifWire {
	var ws []verifWire
	for {
		select {
		case b, ok := <-r.out:
			if !ok {
				return ws
			}
			fs, _ := verifScan(b)
			w := verifWire{raw: b, fs: fs}
			w.msgType, _ = w.get(35)
			w.seq, _ = w.getInt(34)
			pd, ok := w.get(43)
			w.possDup = ok && len(pd) == 1 && pd[0] == 'Y'
			ws = append(ws, w)
		default:
			return ws
		}
	}
}

func verifCountType(ws []verifWire, t string) int {
	n := 0
	for i := range ws {
		if ws[i].is(t) {
			n++
		}
	}
	return n
}

// stateKind names of the eight state implementations
const (
	stInSession = iota
	stResend
	stPendingInSession
	stPendingResend
	stLogon
	stLogout
	stLatent
	stNotSessionTime
)

func verifStateKind(st sessionState) int {
	switch x := st.(type) {
	case inSession:
		return stInSession
	case resendState:
		return stResend
	case pendingTimeout:
		if _, ok := x.sessionState.(resendState); ok {
			return stPendingResend
		}
		return stPendingInSession
	case logonState:
		return stLogon
	case logoutState:
		return stLogout
	case latentState:
		return stLatent
	case notSessionTime:
		return stNotSessionTime
	}
	return -1
}

// appMessage: an inbound application message (NewOrderSingle-like) with sequence number seq.
func (r *verifRig) appMessage(seq int) *Message {
	m := r.inbound("D", seq)
	m.Body.SetString(Tag(11), "ID")
	return m
}
