//go:build verif

package quickfix

func init() {
	verifRegister("C01_step", VerifHarness_C01_step)
	verifRegister("C01_hist", VerifHarness_C01_hist)
}

// verifLoggedOnState installs one of the logged-on states with a symbolic but invariant-respecting
// recovery context: stash of 0..2 early application messages with distinct keys above T.
func (r *verifRig) verifLoggedOnState(kind int, T int) {
	r.app.inLogon = true
	mk := func() resendState {
		rs := resendState{}
		n := verifConc(ndInt("stash-size", 0, 1+verifTier()))
		k1 := ndInt("stash-key1", 11-9*verifTier(), 70)
		verifAssume(k1 > T)
		rs.resendRangeEnd = k1 - 1 // the first early message S set the range end to S-1
		if n >= 1 {
			rs.messageStash = map[int]*Message{k1: r.appMessage(k1)}
		}
		if n >= 1 && ndBool("stash-first-is-gapfill") {
			// a kept live gap fill: when its turn comes the expected number moves by more than one
			g := r.inbound("4", k1)
			g.Body.SetInt(tagNewSeqNo, k1+2)
			g.Body.SetBool(tagGapFillFlag, true)
			rs.messageStash[k1] = g
			if ndBool("stash-after-gapfill") {
				rs.messageStash[k1+2] = r.appMessage(k1 + 2)
			}
		}
		if n == 2 {
			k2 := ndInt("stash-key2", 12-9*verifTier(), 75)
			verifAssume(k2 > k1+2)
			rs.messageStash[k2] = r.appMessage(k2)
		}
		if r.s.ResendRequestChunkSize > 0 && ndBool("chunk-in-progress") {
			c := ndInt("current-chunk-end", 1, 70)
			verifAssume(c >= T-1 && c < rs.resendRangeEnd)
			rs.currentResendRangeEnd = c
		}
		return rs
	}
	switch kind {
	case stInSession:
		r.s.State = inSession{}
	case stResend:
		r.s.State = mk()
	case stPendingInSession:
		r.s.State = pendingTimeout{inSession{}}
	case stPendingResend:
		r.s.State = pendingTimeout{mk()}
	case stLogout:
		r.s.State = logoutState{}
	case stLogon:
		r.s.State = logonState{}
		r.app.inLogon = false
	}
}

// verifEvent builds one inbound message of symbolic type / number / flags.
func (r *verifRig) verifEvent(name string, T int, maxS int) *Message {
	S := ndInt(name+".S", verifSeqLo(), maxS)
	var m *Message
	maxType := 5
	if r.allEventTypes {
		maxType = 7
	}
	switch verifConc(ndInt(name+".type", 0, maxType)) {
	case 6:
		verifCase("business-reject-message")
		m = r.inbound("j", S) // an application-level message type the application may itself refuse
		m.Body.SetString(Tag(58), "no")
	case 7:
		verifCase("reject-message")
		m = r.inbound("3", S)
		m.Body.SetInt(tagRefSeqNum, 1)
	case 0:
		verifCase("app")
		m = r.appMessage(S)
		if r.richEvents && ndBool(name+".two-letter-type") {
			// application message types are not all one character, and their first character may be that of an
			// administrative type (AE TradeCaptureReport, AS AllocationReport, ...)
			m.Header.SetString(tagMsgType, "AE")
		}
	case 1:
		verifCase("heartbeat")
		m = r.inbound("0", S)
	case 2:
		verifCase("testrequest")
		m = r.inbound("1", S)
		m.Body.SetString(tagTestReqID, "T")
	case 3:
		verifCase("resendrequest")
		m = r.inbound("2", S)
		if r.richEvents && ndBool(name+".without-range") {
			// a damaged ResendRequest: looked at whatever its number, then rejected for the missing field
			verifCase("no-range")
		} else {
			m.Body.SetInt(tagBeginSeqNo, ndInt(name+".begin", 0, 9))
			m.Body.SetInt(tagEndSeqNo, ndInt(name+".end", 0, 9))
		}
	case 4:
		verifCase("sequencereset")
		m = r.inbound("4", S)
		m.Body.SetInt(tagNewSeqNo, ndInt(name+".newseq", 0, maxS+5))
		if ndBool(name + ".gapfill") {
			m.Body.SetBool(tagGapFillFlag, true)
		}
	case 5:
		verifCase("logout")
		m = r.inbound("5", S)
	}
	if ndBool(name + ".possdup") {
		verifPossDup(m)
	}
	return m
}

func (r *verifRig) checkDeliveries(pfx string) {
	prev := 0
	for i, d := range r.app.fromApp {
		verifAssert(d.seq == d.expected, pfx+"-delivered-only-when-seq-equals-expected")
		if i > 0 {
			verifAssert(d.seq > prev, pfx+"-deliveries-strictly-increasing")
		}
		prev = d.seq
	}
}

// C01_step — one inductive step: an arbitrary logged-on state, one arbitrary inbound message.
func VerifHarness_C01_step() {
	// quick: acceptor, FIX.4.2 / FIXT.1.1, two-digit numbers (no digit-count case split); thorough: everything
	var r *verifRig
	if verifTier() == 0 {
		bs := BeginStringFIX42
		if ndBool("fixt") {
			bs = BeginStringFIXT11
		}
		r = verifNewSession(false, bs)
	} else {
		bs := BeginStringFIX41
		if ndBool("fixt") {
			bs = BeginStringFIXT11
		}
		r = verifNewSession(ndBool("initiator"), bs)
	}
	if ndBool("chunked") {
		r.s.ResendRequestChunkSize = 2
	}
	r.app.appMayReject = true
	r.allEventTypes = true
	r.richEvents = true
	T := ndInt("T", verifSeqLo(), 60)
	r.setCounters(T, ndInt("N", 1, 9))
	kind := verifConc(ndInt("state", 0, 4))
	if kind == 4 {
		kind = stLogout
	}
	r.verifLoggedOnState(kind, T)
	m := r.verifEvent("ev", T, 66)
	S, sOK := m.Header.GetInt(tagMsgSeqNum)
	mt, _ := m.MsgType()
	resetMode := mt == "4" && !m.Body.Has(tagGapFillFlag)
	r.s.fixMsgIn(r.s, m)
	r.pump()
	T1 := r.st.NextTargetMsgSeqNum()
	if sOK == nil && S != T && !resetMode {
		verifAssert(T1 == T, "step-expected-number-changes-only-when-the-expected-message-arrives")
	}
	if resetMode {
		ns, e := m.Body.GetInt(tagNewSeqNo)
		if e == nil && ns <= T && r.app.adminRejects == 0 {
			// (when the application itself refuses the message in FromAdmin, the message carrying the expected number
			// is consumed like any other rejected message)
			verifAssert(T1 == T, "step-reset-not-moving-forward-changes-nothing")
		}
	}
	r.checkDeliveries("step")
	if (mt == "D" || mt == "AE") && sOK == nil && S == T && kind == stInSession {
		// an application message carrying the expected number in the normal state goes to the application callback
		verifAssert(len(r.app.fromApp) >= 1 && r.app.fromApp[0].seq == T, "step-expected-application-message-handed-to-fromapp")
	}
	verifAssert(T1 >= T, "step-expected-number-never-moves-backwards")
	// what was delivered is the event or a stashed message, never anything else, never twice
	verifAssert(len(r.app.fromApp) <= 4, "step-at-most-event-plus-stash-delivered")
	if len(r.app.fromApp) > 0 {
		last := r.app.fromApp[len(r.app.fromApp)-1]
		verifAssert(T1 > last.seq, "step-expected-number-past-every-delivered-message")
	}
	verifObserve("delivered", len(r.app.fromApp))
	verifObserve("T1", T1)
}

// C01_hist — K-step histories from inSession: guards the step harness against unreachable pre-states.
func VerifHarness_C01_hist() {
	// quick: both roles; thorough (three events): acceptor only - C01_step keeps both roles for every single step
	r := verifNewSession(verifTier() == 0 && ndBool("initiator"), BeginStringFIX42)
	if ndBool("chunked") {
		r.s.ResendRequestChunkSize = 1
	}
	// the starting number is one symbolic value of a narrow range: the event order carries the case analysis here,
	// C01_step keeps the numbers fully symbolic
	T := ndInt("T", 20, 22)
	r.setCounters(T, 1)
	r.verifLoggedOnState(stInSession, T)
	K := verifBound(2, 3)
	for k := 0; k < K; k++ {
		if !r.s.IsLoggedOn() {
			break
		}
		before := r.st.NextTargetMsgSeqNum()
		m := r.verifEvent("ev", before, 28)
		r.s.fixMsgIn(r.s, m)
		r.pump()
		verifAssert(r.st.NextTargetMsgSeqNum() >= before, "hist-expected-number-never-moves-backwards")
	}
	r.checkDeliveries("hist")
	verifObserve("delivered", len(r.app.fromApp))
}

// verifSeqLo: lowest sequence number used by the session harnesses: 10 in the quick tier (all numbers have two
// digits, so the decimal rendering needs no case split), 1 in the thorough tier.
func verifSeqLo() int {
	if verifTier() == 0 {
		return 10
	}
	return 1
}

func init() { verifRegister("C01_logon", VerifHarness_C01_logon) }

// C01_logon: the Logon is a numbered message like any other: it is consumed only when it carries the expected number
// (for every combination of role, NextExpectedMsgSeqNum handling and announced 789), and a Logon that arrives early
// leaves the expected number alone so that the missing messages can still be delivered in order.
func VerifHarness_C01_logon() {
	bs := verifPickBeginString()
	r := verifNewSession(ndBool("initiator"), bs)
	r.s.EnableNextExpectedMsgSeqNum = ndBool("EnableNextExpectedMsgSeqNum")
	T := ndInt("T", verifSeqLo(), 50)
	N := ndInt("N", 1, 9)
	r.setCounters(T, N)
	r.s.State = logonState{}
	S := ndInt("S", verifSeqLo(), 60)
	m := r.inbound("A", S)
	if ndBool("has-789") {
		m.Body.SetInt(tagNextExpectedMsgSeqNum, ndInt("789", 1, 12))
	}
	r.s.fixMsgIn(r.s, m)
	r.pump()
	T1 := r.st.NextTargetMsgSeqNum()
	if S == T {
		verifCase("in-sequence")
		if r.s.IsLoggedOn() {
			verifAssert(T1 == T+1, "logon-in-sequence-consumes-its-number")
		}
	} else {
		verifCase("out-of-sequence")
		if r.s.IsLoggedOn() {
			verifAssert(T1 == T, "logon-expected-number-changes-only-when-the-expected-message-arrives")
		} else {
			// a refused Logon (here: an announced 789 above anything we sent) ends the connection and, as in the other
			// QuickFIX engines, counts as consumed whatever its number; C01 says nothing about refused logons beyond
			// "never backwards"
			verifAssert(T1 >= T && T1 <= T+1, "refused-logon-moves-the-expected-number-by-at-most-one")
		}
	}
	verifAssert(len(r.app.fromApp) == 0, "logon-delivers-nothing-to-fromapp")
	// the missing messages then arrive as replays and are delivered in order
	if S > T && r.s.IsLoggedOn() {
		rp := r.appMessage(T)
		verifPossDup(rp)
		r.s.fixMsgIn(r.s, rp)
		verifAssert(len(r.app.fromApp) == 1 && r.app.fromApp[0].seq == T, "logon-gap-first-missing-message-delivered")
	}
}
