//go:build verif

package quickfix

import (
	"bytes"
	"time"

	"github.com/quickfixgo/quickfix/internal"
)

func init() { verifRegister("C05_pair", VerifHarness_C05_pair) }

// Two real sessions (initiator A, acceptor B, mirrored identities, each on its own memory store) joined by a network
// the harness plays: what one side writes is in flight until it is handed to the other side's Incoming, a cut loses
// everything in flight in both directions and disconnects both, a restart replaces a session object by a fresh one on
// the same store. The session layer only: no TCP, goroutines, real timers or stream parser (C12 has the parser).
type c05Side struct {
	r        *verifRig
	tag      string
	inflight [][]byte
	sent     []string
	n        int
}

func (s *c05Side) collect() {
	for _, w := range s.r.drain() {
		s.inflight = append(s.inflight, w.raw)
	}
}

func c05DeliverOne(from, to *c05Side) {
	b := from.inflight[0]
	from.inflight = from.inflight[1:]
	to.r.s.Incoming(to.r.s, fixIn{bytes: bytes.NewBuffer(b), receiveTime: time.Now()})
	to.r.pump()
	from.collect()
	to.collect()
}

func (s *c05Side) connect() {
	out := make(chan []byte, 24)
	s.r.out = out
	s.r.s.onAdmin(connect{messageOut: out})
	s.r.pump()
	s.collect()
}

func (s *c05Side) submit() {
	s.n++
	id := s.tag + string(rune('0'+s.n))
	m := NewMessage()
	m.Header.SetString(tagMsgType, "D")
	m.Body.SetString(Tag(11), id)
	if s.r.s.queueForSend(m) == nil {
		s.sent = append(s.sent, id)
	}
	s.r.pump()
	s.collect()
}

// restart: the engine is discarded and recreated on its persistent store (the application object lives on).
func (s *c05Side) restart() {
	old := s.r.s
	ns := &session{
		sessionID:    old.sessionID,
		store:        old.store,
		application:  s.r.app,
		log:          nullLog{},
		sessionEvent: make(chan internal.Event, 8),
		messageEvent: make(chan bool, 1),
	}
	ns.MaxLatency, ns.HeartBtInt, ns.LogoutTimeout, ns.LogonTimeout = old.MaxLatency, old.HeartBtInt, old.LogoutTimeout, old.LogonTimeout
	ns.InitiateLogon = old.InitiateLogon
	ns.DefaultApplVerID, ns.targetDefaultApplVerID = old.DefaultApplVerID, old.targetDefaultApplVerID
	ns.ResendRequestChunkSize = old.ResendRequestChunkSize
	ns.State = latentState{}
	s.r.s = ns
	s.r.app.s = ns
	s.r.withTimers()
}

func c05Cut(a, b *c05Side) {
	for _, s := range []*c05Side{a, b} {
		s.r.s.Disconnected(s.r.s)
		s.r.drain()
		s.inflight = nil
	}
}

func c05Flush(a, b *c05Side) {
	for guard := 0; guard < 60 && (len(a.inflight) > 0 || len(b.inflight) > 0); guard++ {
		if len(a.inflight) > 0 {
			c05DeliverOne(a, b)
		}
		if len(b.inflight) > 0 {
			c05DeliverOne(b, a)
		}
	}
}

func c05Same(x, y []string) bool {
	if len(x) != len(y) {
		return false
	}
	for i := range x {
		if x[i] != y[i] {
			return false
		}
	}
	return true
}

func VerifHarness_C05_pair() {
	bs := BeginStringFIX42
	if verifTier() == 1 {
		bs = verifPickBeginString()
	}
	a := &c05Side{r: verifNewSession(true, bs), tag: "a"}
	b := &c05Side{r: verifNewSession(false, bs), tag: "b"}
	b.r.s.sessionID.SenderCompID, b.r.s.sessionID.TargetCompID = "TW", "ISLD"
	if ndBool("chunked") {
		a.r.s.ResendRequestChunkSize = 1
		b.r.s.ResendRequestChunkSize = 1
	}
	// both stores agree on symbolic numbers: A's next outbound is B's next expected and the other way round
	na := ndInt("next-a-to-b", 20, 22)
	nb := ndInt("next-b-to-a", 40, 42)
	a.r.setCounters(nb, na)
	b.r.setCounters(na, nb)
	for _, s := range []*c05Side{a, b} {
		s.r.withTimers()
		s.r.s.State = latentState{}
		s.r.s.messageOut = nil
	}
	b.connect()
	a.connect()
	c05Flush(a, b)
	verifAssume(a.r.s.IsLoggedOn() && b.r.s.IsLoggedOn())

	K := verifBound(4, 5)
	timerUsed := false
	for k := 0; k < K; k++ {
		up := a.r.s.IsConnected() && b.r.s.IsConnected()
		switch verifConc(ndInt("event", 0, 7)) {
		case 7:
			// one timer expiry somewhere in the history (idle interval or silent peer, on either side)
			verifCase("timer")
			verifAssume(!timerUsed)
			timerUsed = true
			s := a
			if ndBool("timer-on-b") {
				s = b
			}
			verifAssume(s.r.s.IsConnected())
			if verifTier() == 1 && ndBool("peer-timeout") {
				s.r.s.Timeout(s.r.s, internal.PeerTimeout)
			} else {
				s.r.s.Timeout(s.r.s, internal.NeedHeartbeat)
			}
			s.collect()
		case 0:
			verifCase("a-sends")
			verifAssume(a.r.s.IsLoggedOn())
			a.submit()
		case 1:
			verifCase("b-sends")
			verifAssume(b.r.s.IsLoggedOn())
			b.submit()
		case 2:
			verifCase("deliver-a-to-b")
			verifAssume(up && len(a.inflight) > 0)
			c05DeliverOne(a, b)
		case 3:
			verifCase("deliver-b-to-a")
			verifAssume(up && len(b.inflight) > 0)
			c05DeliverOne(b, a)
		case 4:
			verifCase("cut")
			verifAssume(a.r.s.IsConnected() || b.r.s.IsConnected())
			c05Cut(a, b)
		case 5:
			verifCase("reconnect")
			verifAssume(!a.r.s.IsConnected() && !b.r.s.IsConnected())
			b.connect()
			a.connect()
		case 6:
			verifCase("restart")
			verifAssume(!a.r.s.IsConnected() && !b.r.s.IsConnected())
			if ndBool("restart-a") {
				a.restart()
			} else {
				b.restart()
			}
		}
	}
	// the link then stays up for a few heartbeat intervals
	for round := 0; round < 3; round++ {
		if !a.r.s.IsConnected() || !b.r.s.IsConnected() {
			c05Cut(a, b)
			b.connect()
			a.connect()
		}
		c05Flush(a, b)
		for _, s := range []*c05Side{a, b} {
			if s.r.s.IsLoggedOn() {
				s.r.s.Timeout(s.r.s, internal.NeedHeartbeat)
				s.collect()
			}
		}
		c05Flush(a, b)
	}
	verifAssert(a.r.s.IsLoggedOn() && b.r.s.IsLoggedOn(), "pair-session-re-established")
	verifAssert(c05Same(b.r.app.ids, a.sent), "pair-a-to-b-every-message-exactly-once-in-order")
	verifAssert(c05Same(a.r.app.ids, b.sent), "pair-b-to-a-every-message-exactly-once-in-order")
	verifObserve("sent-a", len(a.sent))
	verifObserve("sent-b", len(b.sent))
}
