//go:build verif

package quickfix

import (
	"bytes"

	"github.com/quickfixgo/quickfix/datadictionary"
)

func init() { verifRegister("C15_synth", VerifHarness_C15_synth) }

// Synthetic dictionary built with the real constructors.
//
//	header : 8 STRING req, 9 LENGTH req, 35 STRING req, 49 STRING req, 50 STRING opt
//	trailer: 93 LENGTH opt, 10 STRING req
//	D      : 11 STRING req, 58 STRING opt, 40 CHAR enum{1,2} opt, 99 INT opt, 141 BOOLEAN opt, 44 PRICE opt, 60 UTCTIMESTAMP opt,
//	         group 73 opt { 67 INT (delimiter, req), 68 STRING req, 69 STRING opt, group 78 opt { 79 STRING req, 80 STRING opt } }
//	E      : 55 STRING opt   (a field defined in the dictionary but not for D)
func c15Dicts(fixt bool) (app, transport *datadictionary.DataDictionary) {
	types := map[int]*datadictionary.FieldType{}
	ft := func(tag int, typ string) *datadictionary.FieldType {
		if t, ok := types[tag]; ok {
			return t
		}
		t := datadictionary.NewFieldType("F", tag, typ)
		types[tag] = t
		return t
	}
	fd := func(tag int, typ string, req bool) *datadictionary.FieldDef {
		return datadictionary.NewFieldDef(ft(tag, typ), req)
	}
	side := ft(40, "CHAR")
	side.Enums = map[string]datadictionary.Enum{"1": {Value: "1"}, "2": {Value: "2"}}
	nested := datadictionary.NewGroupFieldDef(ft(78, "NUMINGROUP"), false, []datadictionary.MessagePart{fd(79, "STRING", true), fd(80, "STRING", false)})
	grp := datadictionary.NewGroupFieldDef(ft(73, "NUMINGROUP"), false, []datadictionary.MessagePart{fd(67, "INT", true), fd(68, "STRING", true), fd(69, "STRING", false), nested})
	header := datadictionary.NewMessageDef("Header", "", []datadictionary.MessagePart{fd(8, "STRING", true), fd(9, "LENGTH", true), fd(35, "STRING", true), fd(49, "STRING", true), fd(50, "STRING", false)})
	trailer := datadictionary.NewMessageDef("Trailer", "", []datadictionary.MessagePart{fd(93, "LENGTH", false), fd(10, "STRING", true)})
	msgs := map[string]*datadictionary.MessageDef{
		"D": datadictionary.NewMessageDef("D", "D", []datadictionary.MessagePart{fd(11, "STRING", true), fd(58, "STRING", false), datadictionary.NewFieldDef(side, false),
			fd(99, "INT", false), fd(141, "BOOLEAN", false), fd(44, "PRICE", false), fd(60, "UTCTIMESTAMP", false), grp}),
		"E": datadictionary.NewMessageDef("E", "E", []datadictionary.MessagePart{fd(55, "STRING", false)}),
	}
	if fixt {
		tt := map[int]*datadictionary.FieldType{}
		at := map[int]*datadictionary.FieldType{}
		for tag, t := range types {
			if Tag(tag).IsHeader() || Tag(tag).IsTrailer() {
				tt[tag] = t
			} else {
				at[tag] = t
			}
		}
		transport = &datadictionary.DataDictionary{FieldTypeByTag: tt, Header: header, Trailer: trailer, Messages: map[string]*datadictionary.MessageDef{}}
		app = &datadictionary.DataDictionary{FieldTypeByTag: at, Messages: msgs}
		return app, transport
	}
	app = &datadictionary.DataDictionary{FieldTypeByTag: types, Header: header, Trailer: trailer, Messages: msgs}
	return app, nil
}

const (
	c15None = iota
	c15UnknownMsgType
	c15MissingHeaderRequired
	c15MissingBodyRequired
	c15MissingGroupRequired
	c15UndefinedLow
	c15UndefinedUser
	c15NotForThisMessage
	c15EmptyValue
	c15Malformed
	c15EnumOutside
	c15WrongCount
	c15GroupOrder
	c15HeaderInBody
	c15BodyAfterTrailer
	c15Duplicate
	c15DuplicateUndefinedLow
	c15DuplicateUndefinedUser
	c15Kinds
)

type c15F struct {
	tag string
	val []byte
}

func VerifHarness_C15_synth() {
	fixt := ndBool("fixt")
	app, transport := c15Dicts(fixt)
	settings := ValidatorSettings{
		CheckFieldsOutOfOrder:     ndBool("CheckFieldsOutOfOrder"),
		RejectInvalidMessage:      ndBool("RejectInvalidMessage"),
		AllowUnknownMessageFields: ndBool("AllowUnknownMessageFields"),
		CheckUserDefinedFields:    ndBool("CheckUserDefinedFields"),
		CheckFieldsHaveValues:     ndBool("CheckFieldsHaveValues"),
	}
	v := NewValidator(settings, app, transport)
	defect := verifConc(ndInt("defect", 0, c15Kinds-1))
	profile := verifConc(ndInt("profile", 0, 2)) // 0 minimal, 1 full with one group entry + nested, 2 full with two entries
	sym := func(name string) []byte { return verifValueN(name, 1) }
	digit := func(name string) []byte { return []byte{byte('0' + ndInt(name, 0, 9))} }

	bsv := "FIX.4.4"
	if fixt {
		bsv = "FIXT.1.1"
	}
	msgType := "D"
	if defect == c15UnknownMsgType {
		msgType = "Q"
	}
	var hdr, body, trl []c15F
	hdr = append(hdr, c15F{"49", sym("sender")})
	if profile > 0 {
		hdr = append(hdr, c15F{"50", sym("sub")})
	}
	body = append(body, c15F{"11", sym("clordid")})
	if profile > 0 {
		body = append(body, c15F{"58", sym("text")})
		body = append(body, c15F{"40", []byte{byte('1' + ndInt("side", 0, 1))}})
		body = append(body, c15F{"99", digit("int")})
		yn := byte('N')
		if ndBool("bool") {
			yn = 'Y'
		}
		body = append(body, c15F{"141", []byte{yn}})
		body = append(body, c15F{"44", append(digit("px"), '.', '5')})
		body = append(body, c15F{"60", []byte("20240110-12:00:00")})
		entries := profile
		count := entries
		if defect == c15WrongCount {
			count = entries + 1 + ndInt("count-delta", 0, 1)*(-2)
			verifAssume(count >= 0)
		}
		body = append(body, c15F{"73", []byte{byte('0' + count)}})
		// the group defects sit in any one entry (first or last)
		bad := 0
		if (defect == c15MissingGroupRequired || defect == c15GroupOrder) && entries > 1 {
			bad = verifConc(ndInt("defective-entry", 0, entries-1))
		}
		for e := 0; e < entries; e++ {
			m67, m68, m69 := c15F{"67", digit("g67")}, c15F{"68", sym("g68")}, c15F{"69", sym("g69")}
			switch {
			case defect == c15MissingGroupRequired && e == bad:
				body = append(body, m67, m69)
			case defect == c15GroupOrder && e == bad:
				body = append(body, m67, m69, m68)
			default:
				body = append(body, m67, m68, m69)
			}
			if e == 0 {
				body = append(body, c15F{"78", []byte("1")}, c15F{"79", sym("n79")}, c15F{"80", sym("n80")})
			}
		}
		trl = append(trl, c15F{"93", digit("siglen")})
	} else {
		switch defect {
		case c15MissingGroupRequired, c15WrongCount, c15GroupOrder, c15EnumOutside, c15Malformed, c15EmptyValue, c15Duplicate, c15BodyAfterTrailer:
			verifAssume(false) // these defects need the optional fields / the group of the fuller profiles
		}
	}
	// ---- single-defect mutations
	refTag := 0
	switch defect {
	case c15MissingHeaderRequired:
		hdr = hdr[1:]
		refTag = 49
	case c15MissingBodyRequired:
		body = body[1:]
		refTag = 11
	case c15MissingGroupRequired:
		refTag = 68
	case c15UndefinedLow:
		body = append(body, c15F{"4999", sym("x")})
		refTag = 4999
	case c15UndefinedUser:
		body = append(body, c15F{"5001", sym("x")})
		refTag = 5001
	case c15NotForThisMessage:
		body = append(body, c15F{"55", sym("x")})
		refTag = 55
	case c15EmptyValue:
		body[1].val = nil
		refTag = 58
	case c15Malformed:
		switch verifConc(ndInt("malformed", 0, 5)) {
		case 4:
			body[5].val = []byte("2e2") // a float in exponent notation is not a FIX float
			refTag = 44
		case 5:
			body[5].val = []byte("Inf")
			refTag = 44
		case 0:
			body[3].val = []byte("x")
			refTag = 99
		case 1:
			body[4].val = []byte("Z")
			refTag = 141
		case 2:
			body[5].val = []byte("+1")
			refTag = 44
		case 3:
			body[6].val = []byte("2024011")
			refTag = 60
		}
	case c15EnumOutside:
		body[2].val = []byte("3")
		refTag = 40
	case c15WrongCount:
		refTag = 73
	case c15HeaderInBody:
		body = append(body, c15F{"50", sym("late")})
		if profile > 0 {
			hdr = hdr[:1]
		}
		refTag = 50
	case c15BodyAfterTrailer:
		trl = append(trl, body[1])
		body = append(body[:1:1], body[2:]...)
		refTag = 58
	case c15Duplicate:
		body = append(body, c15F{"58", sym("dup")})
		refTag = 58
	case c15DuplicateUndefinedLow:
		body = append(body, c15F{"4999", sym("x")}, c15F{"4999", sym("y")})
		refTag = 4999
	case c15DuplicateUndefinedUser:
		body = append(body, c15F{"5001", sym("x")}, c15F{"5001", sym("y")})
		refTag = 5001
	}
	// ---- serialise and parse like the session does
	var inner []byte
	inner = verifFieldText(inner, []byte("35"), []byte(msgType))
	for _, f := range hdr {
		inner = verifFieldText(inner, []byte(f.tag), f.val)
	}
	for _, f := range body {
		inner = verifFieldText(inner, []byte(f.tag), f.val)
	}
	for _, f := range trl {
		inner = verifFieldText(inner, []byte(f.tag), f.val)
	}
	raw := verifFieldText(nil, []byte("8"), []byte(bsv))
	raw = verifFieldText(raw, []byte("9"), verifItoa(len(inner)))
	raw = append(raw, inner...)
	raw = verifFieldText(raw, []byte("10"), []byte("000"))
	m := NewMessage()
	perr := ParseMessageWithDataDictionary(m, bytes.NewBuffer(raw), transport, app)
	verifAssume(perr == nil)
	rej := v.Validate(m)

	reason, ref := -1, 0
	if rej != nil {
		reason = rej.RejectReason()
		if rej.RefTagID() != nil {
			ref = int(*rej.RefTagID())
		}
	}
	expect := func(wantReject bool, wantReason int, id string) {
		if wantReject {
			verifAssert(rej != nil, id+"-rejected")
			if rej != nil {
				verifAssert(reason == wantReason && ref == refTag, id+"-names-reason-and-tag")
			}
		} else {
			verifAssert(rej == nil, id+"-accepted-when-check-relaxed")
		}
	}
	R := settings.RejectInvalidMessage
	switch defect {
	case c15None:
		verifCase("conforming")
		verifAssert(rej == nil, "conforming-message-accepted")
	case c15UnknownMsgType:
		verifCase("unknown-msgtype")
		verifAssert(rej != nil && reason == 11, "unknown-msgtype-rejected-invalid-msgtype")
	case c15MissingHeaderRequired, c15MissingBodyRequired:
		verifCase("required-missing")
		expect(true, 1, "required-missing")
	case c15MissingGroupRequired:
		verifCase("group-required-member-missing")
		expect(R, 1, "group-required-member-missing")
	case c15UndefinedLow:
		verifCase("undefined-tag")
		expect(R && !settings.AllowUnknownMessageFields, 0, "undefined-tag")
	case c15UndefinedUser:
		verifCase("undefined-user-tag")
		expect(R && settings.CheckUserDefinedFields, 0, "undefined-user-tag")
	case c15NotForThisMessage:
		verifCase("tag-not-defined-for-message")
		expect(R && !settings.AllowUnknownMessageFields, 2, "tag-not-defined-for-message")
	case c15EmptyValue:
		verifCase("empty-value")
		if settings.CheckFieldsHaveValues {
			expect(true, 4, "empty-value")
		} else if !R {
			verifAssert(rej == nil, "empty-value-accepted-when-check-relaxed")
		} // CheckFieldsHaveValues off but RejectInvalidMessage on: either reaction tolerated (see DESIGN oracle notes)
	case c15Malformed:
		verifCase("malformed-value")
		expect(R, 6, "malformed-value")
	case c15EnumOutside:
		verifCase("enum-outside")
		expect(R, 5, "enum-outside")
	case c15WrongCount:
		verifCase("numingroup-mismatch")
		expect(R, 16, "numingroup-mismatch")
	case c15GroupOrder:
		verifCase("group-members-out-of-order")
		if R {
			verifAssert(rej != nil && (ref == 68 || ref == 69 || ref == 73), "group-order-rejected-naming-a-group-tag")
		} else {
			verifAssert(rej == nil, "group-order-accepted-when-check-relaxed")
		}
	case c15HeaderInBody, c15BodyAfterTrailer:
		verifCase("section-order")
		expect(settings.CheckFieldsOutOfOrder, 14, "section-order")
	case c15Duplicate:
		verifCase("duplicate-tag")
		expect(R, 13, "duplicate-tag")
	case c15DuplicateUndefinedLow, c15DuplicateUndefinedUser:
		// an undefined tag that the settings tolerate must still not appear twice
		verifCase("duplicate-undefined-tag")
		tolerated := settings.AllowUnknownMessageFields
		if defect == c15DuplicateUndefinedUser {
			tolerated = !settings.CheckUserDefinedFields
		}
		if R && tolerated {
			expect(true, 13, "duplicate-undefined-tag")
		} else if R {
			expect(true, 0, "undefined-tag")
		} else {
			verifAssert(rej == nil, "duplicate-undefined-tag-accepted-when-check-relaxed")
		}
	}
	verifObserve("reason", reason)
}

func init() { verifRegister("C15_types", VerifHarness_C15_types) }

// C15_types: every declared type name that stands for a number, a boolean or a timestamp is checked as such: a
// malformed value is refused with "incorrect data format" naming the tag, a well-formed one passes. (The synthetic
// dictionary of C15_synth uses one type name per family; the shipped dictionaries use all of them.)
func VerifHarness_C15_types() {
	ints := []string{"INT", "LENGTH", "SEQNUM", "DAYOFMONTH", "NUMINGROUP"}
	floats := []string{"FLOAT", "QTY", "QUANTITY", "AMT", "PRICE", "PRICEOFFSET", "PERCENTAGE"}
	times := []string{"UTCTIMESTAMP", "TIME"}
	fam := verifConc(ndInt("family", 0, 4))
	var typ string
	var good, bad []byte
	switch fam {
	case 4:
		// every other type name the shipped dictionaries use is text: any non-empty value passes (and nothing panics)
		verifCase("text-types")
		texts := []string{"STRING", "CHAR", "CURRENCY", "DATA", "MONTHYEAR", "LOCALMKTDATE", "DATE", "EXCHANGE", "LANGUAGE", "XMLDATA", "COUNTRY",
			"UTCTIMEONLY", "UTCDATEONLY", "UTCDATE", "TZTIMEONLY", "TZTIMESTAMP", "MULTIPLECHARVALUE", "MULTIPLESTRINGVALUE", "MULTIPLEVALUESTRING"}
		typ = texts[verifConc(ndInt("text-type", 0, len(texts)-1))]
		d := &datadictionary.DataDictionary{FieldTypeByTag: map[int]*datadictionary.FieldType{900: datadictionary.NewFieldType("X", 900, typ)}}
		verifAssert(validateField(d, ValidatorSettings{}, nil, TagValue{tag: 900, value: verifValueN("v", 1)}) == nil, "typed-value-well-formed-accepted")
		return
	case 0:
		verifCase("integer-types")
		typ = ints[verifConc(ndInt("int-type", 0, len(ints)-1))]
		// two symbolic bytes: well-formed exactly when digit digit or '-' digit
		v := ndBytes("v", 2)
		isD := func(c byte) bool { return verifAnd(c >= '0', c <= '9') }
		wf := verifOr(verifAnd(isD(v[0]), isD(v[1])), verifAnd(v[0] == '-', isD(v[1])))
		d := &datadictionary.DataDictionary{FieldTypeByTag: map[int]*datadictionary.FieldType{900: datadictionary.NewFieldType("X", 900, typ)}}
		rej := validateField(d, ValidatorSettings{}, nil, TagValue{tag: 900, value: v})
		if wf {
			verifAssert(rej == nil, "typed-value-well-formed-accepted")
		} else {
			verifAssert(rej != nil && rej.RejectReason() == 6 && rej.RefTagID() != nil && *rej.RefTagID() == 900, "typed-value-malformed-refused-naming-the-tag")
		}
		return
	case 1:
		verifCase("float-types")
		typ = floats[verifConc(ndInt("float-type", 0, len(floats)-1))]
		good, bad = []byte("12.5"), []byte("1e2")
	case 2:
		verifCase("timestamp-types")
		typ = times[verifConc(ndInt("time-type", 0, len(times)-1))]
		good, bad = []byte("20240110-12:00:00"), []byte("20240110-12:00")
	case 3:
		verifCase("boolean")
		typ = "BOOLEAN"
		good, bad = []byte("Y"), []byte("y")
	}
	d := &datadictionary.DataDictionary{FieldTypeByTag: map[int]*datadictionary.FieldType{900: datadictionary.NewFieldType("X", 900, typ)}}
	verifAssert(validateField(d, ValidatorSettings{}, nil, TagValue{tag: 900, value: good}) == nil, "typed-value-well-formed-accepted")
	rej := validateField(d, ValidatorSettings{}, nil, TagValue{tag: 900, value: bad})
	verifAssert(rej != nil && rej.RejectReason() == 6 && rej.RefTagID() != nil && *rej.RefTagID() == 900, "typed-value-malformed-refused-naming-the-tag")
}
