//go:build verif

package quickfix

import "github.com/quickfixgo/quickfix/internal"

func init() {
	verifRegister("C08_step", VerifHarness_C08_step)
	verifRegister("C08_first", VerifHarness_C08_first)
}

// c08State installs any of the eight states with a consistent connection (messageOut open iff connected).
func (r *verifRig) c08State(kind int, T int) (loggedOn, connected, logoutSent bool) {
	switch kind {
	case stInSession, stPendingInSession:
		r.verifLoggedOnState(kind, T)
		return true, true, false
	case stResend, stPendingResend:
		r.app.inLogon = true
		rs := resendState{resendRangeEnd: T + 1}
		if kind == stResend {
			r.s.State = rs
		} else {
			r.s.State = pendingTimeout{rs}
		}
		return true, true, false
	case stLogon:
		r.s.State = logonState{}
		return false, true, false
	case stLogout:
		r.s.State = logoutState{}
		r.app.inLogon = true
		return false, true, true
	case stLatent:
		r.s.State = latentState{}
	case stNotSessionTime:
		r.s.State = notSessionTime{}
	}
	r.s.messageOut = nil
	return false, false, false
}

func c08FirstTimeApp(w *verifWire) bool { return w.is("D") && !w.possDup }

func VerifHarness_C08_step() {
	initiator := ndBool("initiator")
	r := verifNewSession(initiator, BeginStringFIX42)
	T := ndInt("T", verifSeqLo(), 40)
	r.setCounters(T, 3)
	// history: two application messages were sent while logged on (so a ResendRequest has something to replay)
	r.st.SaveMessage(1, []byte("8=FIX.4.2\x019=46\x0135=D\x0134=1\x0149=ISLD\x0152=20240110-12:00:00.000\x0156=TW\x0111=ID\x0110=000\x01"))
	r.st.SaveMessage(2, []byte("8=FIX.4.2\x019=46\x0135=D\x0134=2\x0149=ISLD\x0152=20240110-12:00:00.000\x0156=TW\x0111=ID\x0110=000\x01"))
	// 0..2 application messages submitted by the application and still queued
	nq := verifConc(ndInt("queued", 0, 1+verifTier()))
	r.s.State = latentState{}
	for i := 0; i < nq; i++ {
		q := NewMessage()
		q.Header.SetString(tagMsgType, "D")
		q.Body.SetString(Tag(11), "Q")
		r.s.queueForSend(q)
	}
	select {
	case <-r.s.messageEvent:
	default:
	}
	kind := verifConc(ndInt("state", 0, 7))
	wasLoggedOn, wasConnected, logoutSent := r.c08State(kind, T)
	hadLogon := r.app.inLogon
	out0 := r.out

	switch verifConc(ndInt("event", 0, 9)) {
	case 0:
		verifCase("connect")
		if wasConnected {
			// a second connection for a session that still has one: refused, the first one is not touched
			verifCase("while-connected")
			r.s.onAdmin(connect{messageOut: make(chan []byte, 24)})
		} else {
			r.out = make(chan []byte, 24)
			out0 = r.out
			r.s.onAdmin(connect{messageOut: r.out})
		}
	case 1:
		verifCase("inbound")
		var m *Message
		if ndBool("logon") {
			m = r.inbound("A", ndInt("S", verifSeqLo(), 45))
		} else {
			m = r.verifEvent("ev", T, 45)
		}
		r.s.fixMsgIn(r.s, m)
	case 2:
		verifCase("application-send")
		q := NewMessage()
		q.Header.SetString(tagMsgType, "D")
		q.Body.SetString(Tag(11), "NEW")
		r.s.queueForSend(q)
	case 3:
		verifCase("send-app-messages")
		r.s.SendAppMessages(r.s)
	case 4, 5, 6, 7:
		verifCase("timer")
		r.s.Timeout(r.s, internal.Event(verifConc(ndInt("timer", 0, 3))))
	case 8:
		verifCase("stop")
		r.s.onAdmin(stopReq{})
	case 9:
		verifCase("disconnected")
		r.s.Disconnected(r.s)
	}
	r.pump()
	isLoggedOn, isConnected := r.s.IsLoggedOn(), r.s.IsConnected()
	// the states the other steps start from are closed under a step: a pending test request wraps a logged-on state
	// only (a wrapped logout or logon state would fall through the notification and timeout handling of both)
	if p, ok := r.s.State.(pendingTimeout); ok {
		_, in := p.sessionState.(inSession)
		_, rs := p.sessionState.(resendState)
		verifAssert(in || rs, "pending-test-request-wraps-only-logged-on-states")
	}

	// what reached the wire in this step (out0 may have been closed by the step)
	var ws []verifWire
	closed := false
	if out0 != nil {
		for {
			stop := false
			select {
			case b, ok := <-out0:
				if !ok {
					closed, stop = true, true
					break
				}
				fs, _ := verifScan(b)
				w := verifWire{raw: b, fs: fs}
				w.msgType, _ = w.get(35)
				pd, ok2 := w.get(43)
				w.possDup = ok2 && len(pd) == 1 && pd[0] == 'Y'
				ws = append(ws, w)
			default:
				stop = true
			}
			if stop {
				break
			}
		}
	}
	sawLogout := logoutSent
	for i := range ws {
		if c08FirstTimeApp(&ws[i]) {
			verifAssert(wasLoggedOn || isLoggedOn, "first-time-app-message-only-inside-logon")
			verifAssert(!sawLogout, "no-first-time-app-message-after-our-logout")
		}
		if ws[i].is("5") {
			sawLogout = true
		}
	}
	if sawLogout {
		// once the engine's Logout is on the wire the session no longer counts as logged on: the send paths and the
		// logout timer key on that, so a state that stays "logged on" would let application messages follow the Logout
		verifAssert(!isLoggedOn, "not-logged-on-once-our-logout-is-sent")
	}
	verifAssert(r.app.fromAppOutsideLogon == 0, "fromapp-only-between-logon-and-logout-notifications")
	if wasConnected && !isConnected {
		if hadLogon {
			verifAssert(r.app.onLogout == 1, "logged-on-period-ends-with-exactly-one-onlogout")
		}
		verifAssert(closed && r.s.messageOut == nil, "connection-closed-on-leaving-connected-state")
		verifAssert(!r.s.sendBytes([]byte("x"), false), "nothing-written-after-disconnect")
	}
	if wasConnected && isConnected {
		verifAssert(r.app.onLogout == 0, "no-onlogout-while-connection-stays-up")
		verifAssert(!closed, "connection-stays-open")
	}
	if !wasConnected && !isConnected {
		verifAssert(len(ws) == 0, "nothing-written-while-disconnected")
	}
	verifObserve("sent", len(ws))
}

// C08_first: on every connection the first message the engine transmits is a Logon or a Logout.
func VerifHarness_C08_first() {
	initiator := ndBool("initiator")
	bs := BeginStringFIX42
	if verifTier() == 1 {
		bs = verifPickBeginString()
	}
	r := verifNewSession(initiator, bs)
	T := ndInt("T", verifSeqLo(), 40)
	r.setCounters(T, ndInt("N", 1, 9))
	r.s.State = latentState{}
	r.s.messageOut = nil
	if ndBool("app-sent-while-disconnected") {
		q := NewMessage()
		q.Header.SetString(tagMsgType, "D")
		r.s.queueForSend(q)
	}
	r.out = make(chan []byte, 24)
	r.s.onAdmin(connect{messageOut: r.out})
	r.pump()
	K := verifBound(1, 2)
	for k := 0; k < K; k++ {
		if !r.s.IsConnected() {
			break
		}
		switch verifConc(ndInt("event", 0, 3)) {
		case 0:
			verifCase("inbound")
			var m *Message
			if ndBool("logon") {
				m = r.inbound("A", ndInt("S", verifSeqLo(), 45))
			} else {
				m = r.verifEvent("ev", T, 45)
			}
			r.s.fixMsgIn(r.s, m)
		case 1:
			verifCase("application-send")
			q := NewMessage()
			q.Header.SetString(tagMsgType, "D")
			r.s.queueForSend(q)
		case 2:
			verifCase("send-app-messages")
			r.s.SendAppMessages(r.s)
		case 3:
			verifCase("timer")
			r.s.Timeout(r.s, internal.Event(verifConc(ndInt("timer", 0, 3))))
		}
		r.pump()
	}
	ws := r.drain()
	if len(ws) > 0 {
		verifAssert(ws[0].is("A") || ws[0].is("5"), "first-message-of-connection-is-logon-or-logout")
	}
}

func init() { verifRegister("C08_logon", VerifHarness_C08_logon) }

// C08_logon: whenever the Logon handshake leaves the session logged on, the application has been told (OnLogon),
// for every combination of the logon-related options, including NextExpectedMsgSeqNum (789) handling.
func VerifHarness_C08_logon() {
	initiator := ndBool("initiator")
	r := verifNewSession(initiator, verifPickBeginString())
	r.s.EnableNextExpectedMsgSeqNum = ndBool("EnableNextExpectedMsgSeqNum")
	r.s.DisableMessagePersist = ndBool("DisableMessagePersist")
	r.s.ResetOnLogon = ndBool("ResetOnLogon")
	T := ndInt("T", verifSeqLo(), 40)
	N := ndInt("N", verifSeqLo(), 40)
	r.setCounters(T, N)
	r.s.State = logonState{}
	m := r.inbound("A", ndInt("S", verifSeqLo(), 45))
	if ndBool("has-789") {
		m.Body.SetInt(tagNextExpectedMsgSeqNum, ndInt("789", verifSeqLo(), 45))
	}
	if ndBool("has-141") {
		m.Body.SetBool(tagResetSeqNumFlag, ndBool("141"))
	}
	r.s.fixMsgIn(r.s, m)
	r.pump()
	if r.s.IsLoggedOn() {
		verifAssert(r.app.onLogon == 1 && r.app.inLogon, "logged-on-implies-logon-notification")
	} else {
		verifAssert(r.app.onLogon == 0 || r.app.onLogout == r.app.onLogon, "failed-logon-leaves-no-open-logon-notification")
	}
	ws := r.drain()
	for i := range ws {
		if c08FirstTimeApp(&ws[i]) {
			verifAssert(false, "no-application-message-during-the-handshake")
		}
	}
}
