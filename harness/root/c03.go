//go:build verif

package quickfix

import "github.com/quickfixgo/quickfix/datadictionary"

func init() { verifRegister("C03_replay", VerifHarness_C03_replay) }

func c03AppDict() *datadictionary.DataDictionary {
	ft := func(tag int) *datadictionary.FieldDef {
		return datadictionary.NewFieldDef(datadictionary.NewFieldType("F", tag, "STRING"), false)
	}
	grp := datadictionary.NewGroupFieldDef(datadictionary.NewFieldType("NoPartyIDs", 453, "NUMINGROUP"), false,
		[]datadictionary.MessagePart{ft(448), ft(447)})
	return &datadictionary.DataDictionary{
		Messages: map[string]*datadictionary.MessageDef{"D": datadictionary.NewMessageDef("D", "D", []datadictionary.MessagePart{ft(11), ft(58), grp, ft(528)})},
	}
}

// c03Body: the non-header, non-trailer fields of a wire message, flattened as tag=value pairs.
func c03Body(w *verifWire) []byte {
	var b []byte
	for _, f := range w.fs {
		if c11In(f.tag, c11HeaderTags) || c11In(f.tag, c11TrailerTags) {
			continue
		}
		b = verifField(b, f.tag, f.val)
	}
	return b
}

func c03WellFormed(w *verifWire, pfx string) {
	n := len(w.fs)
	verifAssert(n >= 4 && w.fs[0].tag == 8 && w.fs[1].tag == 9 && w.fs[2].tag == 35 && w.fs[n-1].tag == 10, pfx+"-framing")
	if n < 4 {
		return
	}
	// exactly one BeginString, BodyLength and CheckSum field: a second CheckSum inside the message ends it early for the peer
	n8, _ := verifCount(w.fs, 8)
	n9, _ := verifCount(w.fs, 9)
	n10, _ := verifCount(w.fs, 10)
	verifAssert(n8 == 1 && n9 == 1 && n10 == 1, pfx+"-single-beginstring-bodylength-checksum")
	bl, ok := verifDec(w.fs[1].val)
	verifAssert(ok && bl == w.fs[n-1].beg-w.fs[1].end, pfx+"-bodylength-correct")
	cs := verifSum(w.raw[:w.fs[n-1].beg]) % 256
	cv := w.fs[n-1].val
	verifAssert(len(cv) == 3 && int(cv[0]-'0')*100+int(cv[1]-'0')*10+int(cv[2]-'0') == cs, pfx+"-checksum-correct")
}

func VerifHarness_C03_replay() {
	bs := BeginStringFIX42
	if verifTier() == 1 {
		bs = verifPickBeginString()
	}
	r := verifNewSession(false, bs)
	// quick: application dictionary configured (group-aware parse on resend), persistence on, except that
	// the no-persistence mode is run on histories of exactly two messages; thorough: all combinations
	withDict := verifTier() == 0 || ndBool("app-dictionary")
	if withDict {
		verifCase("app-dictionary")
		r.s.appDataDictionary = c03AppDict()
	} else {
		verifCase("no-dictionary")
	}
	persist := true
	if ndBool("DisableMessagePersist") {
		r.s.DisableMessagePersist = true
		persist = false
	}
	r.setCounters(5, 1)
	r.verifLoggedOnState(stInSession, 5)

	// ---- history: H messages through the real send path
	H := verifConc(ndInt("history", 0, 3))
	if !persist && verifTier() == 0 {
		verifAssume(H == 2)
	}
	isApp := make([]bool, H+1)
	twoLetter := H >= 1 && persist && ndBool("two-letter-application-type")
	fwd := false
	if H >= 1 && persist && !twoLetter {
		// one choice for the whole history (per-message choice doubles the paths per message for no new replay behaviour)
		fwd = ndBool("forwarded-resend")
	}
	orig := make([]verifWire, H+1)
	for i := 1; i <= H; i++ {
		m := NewMessage()
		// the messages carrying a repeating group are the last of the history (anywhere multiplies the histories
		// beyond the budget of either tier)
		maxKind := 3
		if i < H {
			maxKind = 1
		}
		switch verifConc(ndInt("kind", 0, maxKind)) {
		case 3:
			// the body BEGINS with the repeating group (its counter has the lowest tag of the body)
			isApp[i] = true
			m.Header.SetString(tagMsgType, "D")
			g := NewRepeatingGroup(453, GroupTemplate{GroupElement(448), GroupElement(447)})
			g.Add().SetBytes(448, verifValueN("party", 1))
			m.Body.SetGroup(g)
			m.Body.SetBytes(Tag(528), verifValueN("cap", 1))
		case 0:
			m.Header.SetString(tagMsgType, "0")
		case 1:
			isApp[i] = true
			m.Header.SetString(tagMsgType, "D")
			if twoLetter {
				m.Header.SetString(tagMsgType, "AE") // an application type whose first letter is that of the Logon
			}
			m.Body.SetString(Tag(11), "ID")
			m.Body.SetBytes(Tag(58), verifValueN("text", 1))
		case 2:
			isApp[i] = true
			m.Header.SetString(tagMsgType, "D")
			m.Body.SetString(Tag(11), "ID")
			g := NewRepeatingGroup(453, GroupTemplate{GroupElement(448), GroupElement(447)})
			ne := 1
			if verifTier() == 1 {
				ne = verifConc(ndInt("entries", 1, 2))
			}
			for k := 0; k < ne; k++ {
				e := g.Add()
				e.SetBytes(448, verifValueN("party", 1))
				if k == 0 || ndBool("role") {
					e.SetString(447, "D")
				}
			}
			m.Body.SetGroup(g)
		}
		if isApp[i] && fwd {
			// the application marks the message as a resend of something older: it carries its own (stale)
			// OrigSendingTime and PossResend when first transmitted
			m.Header.SetString(tagOrigSendingTime, "20200102-03:04:05.678")
			m.Header.SetBool(tagPossResend, true)
		}
		verifAssume(r.s.send(m) == nil)
		ws := r.drain()
		verifAssume(len(ws) == 1 && ws[0].seq == i)
		orig[i] = ws[0]
	}

	// the peer may ask for the same range again (its own recovery was interrupted): the second answer is as good as
	// the first - replaying must not disturb what is stored
	b := ndInt("BeginSeqNo", 1, H+2)
	eSel := ndInt("EndSeqNo", 0, H+3)
	N := H + 1
	ask := func(reqSeq int, mayRefuse bool) int {
		// ---- the ResendRequest
		e := eSel
		if eSel == H+3 {
			e = 999999
		}
		req := r.inbound("2", reqSeq)
		req.Body.SetInt(tagBeginSeqNo, b)
		req.Body.SetInt(tagEndSeqNo, e)
		r.app.toAppMayRefuse = mayRefuse
		r.s.fixMsgIn(r.s, req)
		r.pump()
		ws := r.drain()

		last := N - 1
		hi := e
		if (bs >= BeginStringFIX42 && e == 0) || (bs <= BeginStringFIX42 && e == 999999) || e >= N {
			hi = last
		}
		if b > hi {
			verifCase("empty-range")
			verifAssert(len(ws) == 0, "nothing-sent-for-empty-range")
			return 0
		}
		verifCase("range")
		verifAssert(len(ws) >= 1, "range-answered")
		next := b
		for i := range ws {
			w := &ws[i]
			verifAssert(w.possDup, "every-reply-is-possdup")
			verifAssert(w.seq == next, "coverage-contiguous-from-begin")
			c03WellFormed(w, "reply")
			if w.is("4") {
				gf, ok := w.get(123)
				verifAssert(ok && len(gf) == 1 && gf[0] == 'Y', "gap-fill-flag-set")
				ns, ok := w.getInt(36)
				verifAssert(ok && ns > w.seq, "gap-fill-moves-forward")
				// a gap fill covers only administrative or refused messages
				for q := w.seq; q < ns && q <= last; q++ {
					_ = q
				}
				next = ns
			} else {
				verifAssert(w.is("D") || w.is("AE"), "only-application-messages-are-replayed")
				verifAssert(persist, "no-replay-without-persistence")
				if w.seq >= 1 && w.seq <= last {
					o := &orig[w.seq]
					verifAssert(isApp[w.seq], "administrative-messages-never-replayed")
					ot, _ := o.get(52)
					got, ok := w.get(122)
					verifAssert(ok && verifBytesEq(got, ot), "origsendingtime-is-original-sendingtime")
					verifAssert(verifBytesEq(c03Body(w), c03Body(o)), "body-byte-identical")
				}
				next = w.seq + 1
			}
		}
		verifAssert(next == hi+1, "coverage-ends-at-min-end-last-plus-one")
		if !persist {
			verifAssert(len(ws) == 1 && ws[0].is("4"), "without-persistence-one-gap-fill")
		}
		// refused and administrative messages are covered by gap fills: every application message in range
		// that was not refused appears exactly once
		replayed := 0
		for i := range ws {
			if ws[i].is("D") || ws[i].is("AE") {
				replayed++
			}
		}
		apps := 0
		for q := b; q <= hi; q++ {
			if q >= 1 && q <= last && isApp[q] {
				apps++
			}
		}
		if persist {
			verifAssert(replayed == apps-r.app.refusals, "every-unrefused-application-message-replayed-once")
		}
		return len(ws)
	}
	n1 := ask(5, true)
	if persist && n1 > 0 && ndBool("asked-twice") {
		verifCase("asked-twice")
		r.app.refusals = 0
		n2 := ask(6, false)
		verifAssert(n2 >= 1, "second-request-answered")
	}
	verifObserve("replies", n1)

}
