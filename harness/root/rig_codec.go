//go:build verif

package quickfix

import "bytes"

// ---------------------------------------------------------------------------------------------
// Independent tag=value scanner used as the oracle of the codec harnesses. It shares no code with
// the implementation (own decimal reader, own field splitter).

const verifSOH = byte(1)

type verifTV struct {
	tag      int
	tagOK    bool
	val      []byte
	beg, end int // [beg,end) of the whole field including the SOH
}

func verifDec(b []byte) (int, bool) {
	if len(b) == 0 {
		return 0, false
	}
	n := 0
	for _, c := range b {
		if c < '0' || c > '9' {
			return 0, false
		}
		n = n*10 + int(c-'0')
	}
	return n, true
}

// verifScan splits b at SOH bytes; ok=false when trailing bytes are not SOH-terminated or a field has no '='.
func verifScan(b []byte) (fs []verifTV, ok bool) {
	pos := 0
	for pos < len(b) {
		end := pos
		for end < len(b) && b[end] != verifSOH {
			end++
		}
		if end == len(b) {
			return fs, false
		}
		eq := pos
		for eq < end && b[eq] != '=' {
			eq++
		}
		if eq == end {
			return fs, false
		}
		t, tok := verifDec(b[pos:eq])
		fs = append(fs, verifTV{tag: t, tagOK: tok, val: b[eq+1 : end], beg: pos, end: end + 1})
		pos = end + 1
	}
	return fs, true
}

func verifSum(b []byte) int {
	s := 0
	for _, c := range b {
		s += int(c)
	}
	return s
}

func verifBytesEq(a, b []byte) bool { return verifEqBytes(a, b) }

// verifValue returns a symbolic SOH-free value of symbolic length 0..maxLen.
func verifValue(name string, maxLen int) []byte {
	n := verifConc(ndInt(name+".len", 0, maxLen))
	v := ndBytes(name, n)
	for _, c := range v {
		verifAssume(c != verifSOH)
	}
	return v
}

// verifValueN: exactly n symbolic SOH-free bytes.
func verifValueN(name string, n int) []byte {
	v := ndBytes(name, n)
	for _, c := range v {
		verifAssume(c != verifSOH)
	}
	return v
}

func verifItoa(n int) []byte {
	if n == 0 {
		return []byte{'0'}
	}
	neg := n < 0
	if neg {
		n = -n
	}
	var d []byte
	for n > 0 {
		d = append([]byte{byte('0' + n%10)}, d...)
		n /= 10
	}
	if neg {
		d = append([]byte{'-'}, d...)
	}
	return d
}

// verifField appends tag=value<SOH>.
func verifField(b []byte, tag int, val []byte) []byte {
	b = append(b, verifItoa(tag)...)
	b = append(b, '=')
	b = append(b, val...)
	return append(b, verifSOH)
}

// verifWellFormed checks the structural claims of C10 on built bytes and returns the scanned fields.
func verifWellFormed(b []byte, pfx string) []verifTV {
	fs, ok := verifScan(b)
	verifAssert(ok, pfx+"-scannable")
	if !ok {
		return nil
	}
	n := len(fs)
	verifAssert(n >= 4 && fs[0].tag == 8 && fs[1].tag == 9 && fs[2].tag == 35, pfx+"-begins-8-9-35")
	verifAssert(n >= 1 && fs[n-1].tag == 10, pfx+"-checksum-last")
	if n < 4 {
		return fs
	}
	// BodyLength: bytes between the end of field 9 and the start of field 10
	bl, blOK := verifDec(fs[1].val)
	verifAssert(blOK && bl == fs[n-1].beg-fs[1].end, pfx+"-bodylength")
	// CheckSum: three digits of the byte sum before field 10, mod 256
	cs := verifSum(b[:fs[n-1].beg]) % 256
	cv := fs[n-1].val
	verifAssert(len(cv) == 3 && int(cv[0]-'0')*100+int(cv[1]-'0')*10+int(cv[2]-'0') == cs &&
		cv[0] >= '0' && cv[0] <= '9' && cv[1] >= '0' && cv[1] <= '9' && cv[2] >= '0' && cv[2] <= '9', pfx+"-checksum")
	return fs
}

func verifCount(fs []verifTV, tag int) (n int, last int) {
	last = -1
	for i, f := range fs {
		if f.tagOK && f.tag == tag {
			n++
			last = i
		}
	}
	return
}

func verifParse(b []byte) (*Message, error) {
	m := NewMessage()
	err := ParseMessage(m, bytes.NewBuffer(b))
	return m, err
}
