//go:build verif

package file

import (
	"github.com/quickfixgo/quickfix"
)

func init() {
	verifRegister("C16_file", VerifHarness_C16_file)
	verifRegister("C16_mem", VerifHarness_C16_mem)
	verifRegister("C17_crash", VerifHarness_C17_crash)
}

func verifTierBound(quick, thorough int) int {
	if verifTier() == 1 {
		return thorough
	}
	return quick
}

var c16Session = quickfix.SessionID{BeginString: "FIX.4.2", SenderCompID: "S", TargetCompID: "T"}
// the second session's file-name prefix extends the first one's
var c16Other = quickfix.SessionID{BeginString: "FIX.4.2", SenderCompID: "S", TargetCompID: "T2"}

type c16Msg struct {
	seq int
	b   []byte
}

// abstract store: two counters and a list of (number, bytes) in ascending order
type c16Model struct {
	N, T int
	msgs []c16Msg
	last int
}

func (m *c16Model) rng(b, e int) []c16Msg {
	var out []c16Msg
	for _, x := range m.msgs {
		if x.seq >= b && x.seq <= e {
			out = append(out, x)
		}
	}
	return out
}

func c16Compare(got [][]byte, want []c16Msg, pfx string) {
	verifAssert(len(got) == len(want), pfx+"-same-number-of-messages")
	if len(got) == len(want) {
		for i := range got {
			verifAssert(verifEqBytes(got[i], want[i].b), pfx+"-messages-byte-identical-in-order")
		}
	}
}

func c16Bytes(name string) []byte {
	n := verifConc(ndInt(name+".len", 1, 2+verifTier()))
	return ndBytes(name, n)
}

// c16Run drives a store and the abstract model through K symbolic operations.
func c16Run(store quickfix.MessageStore, reopen func() quickfix.MessageStore, pfx string) {
	model := &c16Model{N: 1, T: 1, last: 9}
	if reopen != nil && ndBool("history-one-message-saved-and-read-back") {
		// the store has been in use: whatever it keeps open or cached from a read is there when the operations start
		verifCase("used-store")
		b := ndBytes("hist", 1)
		verifAssume(store.SaveMessage(10, b) == nil)
		got, err := store.GetMessages(10, 10)
		verifAssert(err == nil && len(got) == 1 && verifEqBytes(got[0], b), pfx+"-history-read-back")
		model.msgs, model.last = append(model.msgs, c16Msg{10, b}), 10
	}
	K := 3
	nops := 8
	for k := 0; k < K; k++ {
		op := verifConc(ndInt("op", 0, nops-1))
		switch op {
		case 0:
			verifCase("set-sender")
			x := ndInt("x", 1, 120) // one to three digits: a shorter value may follow a longer one
			verifAssert(store.SetNextSenderMsgSeqNum(x) == nil, pfx+"-op-succeeds")
			model.N = x
		case 1:
			verifCase("incr-target")
			verifAssert(store.IncrNextTargetMsgSeqNum() == nil, pfx+"-op-succeeds")
			model.T++
		case 2:
			verifCase("save")
			seq := model.last + 1 + verifConc(ndInt("seq-gap", 0, 1))
			b := c16Bytes("msg")
			verifAssert(store.SaveMessage(seq, b) == nil, pfx+"-op-succeeds")
			model.msgs = append(model.msgs, c16Msg{seq, b})
			model.last = seq
		case 3:
			verifCase("save-and-incr")
			seq := model.last + 1 + verifConc(ndInt("seq-gap", 0, 1))
			b := c16Bytes("msg")
			verifAssert(store.SaveMessageAndIncrNextSenderMsgSeqNum(seq, b) == nil, pfx+"-op-succeeds")
			model.msgs = append(model.msgs, c16Msg{seq, b})
			model.last = seq
			model.N++
		case 4:
			verifCase("get-range")
			b, e := ndInt("begin", 9, 17), ndInt("end", 9, 17)
			got, err := store.GetMessages(b, e)
			verifAssert(err == nil, pfx+"-op-succeeds")
			c16Compare(got, model.rng(b, e), pfx+"-range")
		case 5:
			verifCase("refresh")
			verifAssert(store.Refresh() == nil, pfx+"-op-succeeds")
			if reopen == nil {
				// the memory store has nothing to refresh from: state unchanged
			}
		case 6:
			verifCase("reset")
			verifAssert(store.Reset() == nil, pfx+"-op-succeeds")
			model.N, model.T, model.msgs, model.last = 1, 1, nil, 9
		case 7:
			verifCase("reopen")
			if reopen != nil {
				store = reopen()
			}
		}
		verifAssert(store.NextSenderMsgSeqNum() == model.N, pfx+"-sender-counter")
		verifAssert(store.NextTargetMsgSeqNum() == model.T, pfx+"-target-counter")
	}
	got, err := store.GetMessages(8, 18)
	verifAssert(err == nil, pfx+"-final-read-succeeds")
	c16Compare(got, model.msgs, pfx+"-final")
	// an aborting callback stops the iteration and its error is returned
	if len(model.msgs) > 0 {
		seen := 0
		stop := quickfixErr
		err := store.IterateMessages(8, 18, func([]byte) error {
			seen++
			return stop
		})
		verifAssert(err == stop && seen == 1, pfx+"-aborting-callback-stops-iteration")
	}
	verifObserve("N", store.NextSenderMsgSeqNum())
}

var quickfixErr = verifErrNotExist

func VerifHarness_C16_mem() {
	store, err := quickfix.NewMemoryStoreFactory().Create(c16Session)
	verifAssume(err == nil)
	c16Run(store, nil, "mem")
}

func VerifHarness_C16_file() {
	vfs = &verifFileSystem{}
	store, err := newFileStore(c16Session, "d", true)
	verifAssert(err == nil, "file-store-opens")
	if err != nil {
		return
	}
	// a second session shares the directory
	other, err := newFileStore(c16Other, "d", true)
	verifAssume(err == nil)
	ob := c16Bytes("other")
	verifAssume(other.SaveMessageAndIncrNextSenderMsgSeqNum(33, ob) == nil)
	cur := store
	c16Run(store, func() quickfix.MessageStore {
		cur.Close()
		s, err := newFileStore(c16Session, "d", true)
		verifAssert(err == nil, "file-store-reopens")
		cur = s
		return s
	}, "file")
	got, err := other.GetMessages(1, 70)
	verifAssert(err == nil && len(got) == 1 && verifEqBytes(got[0], ob) && other.NextSenderMsgSeqNum() == 2, "sessions-sharing-a-directory-do-not-interfere")
}

// C17_crash: the process dies at any point of one store operation (file store, syncing on).
func VerifHarness_C17_crash() {
	vfs = &verifFileSystem{}
	store, err := newFileStore(c16Session, "d", true)
	verifAssume(err == nil)
	// completed history
	var done []c16Msg
	N, T := 1, 1
	nDone := verifConc(ndInt("completed-saves", 0, 1+verifTier()))
	for i := 0; i < nDone; i++ {
		b := c16Bytes("done")
		verifAssume(store.SaveMessageAndIncrNextSenderMsgSeqNum(N, b) == nil)
		done = append(done, c16Msg{N, b})
		N++
	}
	if nDone > 0 && ndBool("completed-reset-then-one-save") {
		// history continues: the store was reset and used again
		verifAssume(store.Reset() == nil)
		done, N, T = nil, 1, 1
		b := c16Bytes("afterreset")
		verifAssume(store.SaveMessageAndIncrNextSenderMsgSeqNum(N, b) == nil)
		done = append(done, c16Msg{N, b})
		N++
	}
	vfs.mark()
	// the interrupted operation
	var pending *c16Msg
	N1, T1 := N, T
	resetting := false
	switch verifConc(ndInt("interrupted-op", 0, 7)) {
	case 6:
		// the process had been restarted and dies again while opening the store
		verifCase("reopen")
		store.Close()
		newFileStore(c16Session, "d", true)
	case 7:
		verifCase("refresh")
		store.Refresh()
	case 4:
		verifCase("reset")
		resetting = true
		store.Reset()
		N1, T1 = 1, 1
	case 5:
		// the very first creation of the store's files is interrupted
		verifCase("first-creation")
		verifAssume(nDone == 0)
		vfs = &verifFileSystem{}
		vfs.mark()
		newFileStore(c16Session, "d", true)
	case 0:
		verifCase("save-and-incr")
		b := c16Bytes("pending")
		pending = &c16Msg{N, b}
		store.SaveMessageAndIncrNextSenderMsgSeqNum(N, b)
		N1 = N + 1
	case 1:
		verifCase("save")
		b := c16Bytes("pending")
		pending = &c16Msg{N, b}
		store.SaveMessage(N, b)
	case 2:
		verifCase("set-sender")
		N1 = ndInt("x", 10, 60)
		store.SetNextSenderMsgSeqNum(N1)
	case 3:
		verifCase("incr-target")
		store.IncrNextTargetMsgSeqNum()
		T1 = T + 1
	}
	effects := len(vfs.journal)
	i := verifConc(ndInt("crash-at-effect", 0, effects))
	cut := 0
	if i < effects && vfs.journal[i].kind == 'w' {
		cut = verifConc(ndInt("bytes-of-inflight-write", 0, len(vfs.journal[i].data)))
	}
	power := ndBool("power-loss")
	if power {
		verifCase("power-loss")
	} else {
		verifCase("process-death")
	}
	// a write cut in the middle leaves a torn record behind; a crash between two effects leaves whole records only
	if i < effects && vfs.journal[i].kind == 'w' && cut > 0 && cut < len(vfs.journal[i].data) {
		verifCase("torn-write")
	} else {
		verifCase("whole-effects")
	}
	vfs.crash(i, cut, power)

	// ---- recovery
	re, err := newFileStore(c16Session, "d", true)
	verifAssert(err == nil, "reopen-after-crash-succeeds")
	if err != nil {
		return
	}
	got, err := re.GetMessages(1, 70)
	if resetting {
		// a reset interrupted half-way may leave all, some or none of the old messages; what matters is that the store
		// opens, the counters are the old or the new ones and nothing foreign is returned
		if err == nil {
			for _, g := range got {
				ok := false
				for _, d := range done {
					if verifEqBytes(g, d.b) {
						ok = true
					}
				}
				verifAssert(ok, "reset-crash-returns-only-saved-messages")
			}
		}
		rN, rT := re.NextSenderMsgSeqNum(), re.NextTargetMsgSeqNum()
		verifAssert(rN == N || rN == 1, "reset-crash-sender-counter-before-or-after")
		verifAssert(rT == T || rT == 1, "reset-crash-target-counter-before-or-after")
		return
	}
	verifAssert(err == nil, "messages-readable-after-crash")
	if err != nil {
		return
	}
	// every message whose save had completed is returned intact
	for _, d := range done {
		found := false
		for _, g := range got {
			if verifEqBytes(g, d.b) {
				found = true
			}
		}
		one, e1 := re.GetMessages(d.seq, d.seq)
		verifAssert(found && e1 == nil && len(one) == 1 && verifEqBytes(one[0], d.b), "completed-message-returned-intact")
	}
	// nothing torn or foreign is returned
	verifAssert(len(got) <= len(done)+1, "no-extra-messages")
	if len(got) == len(done)+1 {
		verifAssert(pending != nil && verifEqBytes(got[len(got)-1], pending.b), "in-flight-message-intact-or-absent")
	}
	rN, rT := re.NextSenderMsgSeqNum(), re.NextTargetMsgSeqNum()
	verifAssert(rN == N || rN == N1, "sender-counter-before-or-after")
	verifAssert(rT == T || rT == T1, "target-counter-before-or-after")
	// the store is never ahead of its messages
	if pending != nil && rN == pending.seq+1 {
		one, e1 := re.GetMessages(pending.seq, pending.seq)
		verifAssert(e1 == nil && len(one) == 1 && verifEqBytes(one[0], pending.b), "counter-says-used-so-message-retrievable")
	}
	// the store keeps working after recovery
	{
		nb := c16Bytes("after")
		verifAssert(re.SaveMessageAndIncrNextSenderMsgSeqNum(rN, nb) == nil, "save-after-recovery-succeeds")
		one, e1 := re.GetMessages(rN, rN)
		verifAssert(e1 == nil && len(one) >= 1 && verifEqBytes(one[len(one)-1], nb), "message-saved-after-recovery-retrievable")
	}
	verifObserve("recoveredN", rN)
}
