//go:build verif

package file

// In-memory file system used instead of package os by the overlay copies of file_store.go / util.go
// (the engine generates those copies from the CURRENT files by renaming the os identifiers). The same
// code runs under the symbolic engine and natively in replay. Every effect is journaled so that a crash
// image can be built at any effect index / byte cut (Appendix C of DESIGN.md).

import (
	"errors"
	"io"
	"path"
)

type verifFileMode uint32

const (
	verifModePerm verifFileMode = 0o777
	verifO_RDONLY               = 0
	verifO_WRONLY               = 1
	verifO_RDWR                 = 2
	verifO_CREATE               = 64
	verifO_TRUNC                = 512
	verifO_APPEND               = 1024
)

var verifErrNotExist = errors.New("file does not exist")

func verifIsNotExist(err error) bool { return err == verifErrNotExist }

type verifFileData struct {
	name     string
	unlinked bool // removed from the directory: the name is free again, handles opened before still reach this data
	exists   bool
	v       []byte // volatile image (what a reader in the same process sees)
	d       []byte // durable image (as of the last Sync)
	dExists bool
}

type verifEffect struct {
	kind byte // 'c' create, 'w' write, 's' sync, 'r' remove
	file *verifFileData
	off  int
	data []byte
}

type verifFileSystem struct {
	files   []*verifFileData
	journal []verifEffect
	// snapshot taken by mark()
	baseV, baseD           [][]byte
	baseExists, baseDExist []bool
	baseUnlinked           []bool
	writes                 int
}

var vfs = &verifFileSystem{}

func (fs *verifFileSystem) lookup(name string) *verifFileData {
	for _, f := range fs.files {
		if f.name == name && !f.unlinked {
			return f
		}
	}
	f := &verifFileData{name: name}
	fs.files = append(fs.files, f)
	return f
}

type verifFile struct {
	data       *verifFileData
	off        int
	closed     bool
	appendMode bool // O_APPEND: every write goes to the end
}

func verifMkdirAll(string, verifFileMode) error { return nil }

func verifOpenFile(name string, flag int, _ verifFileMode) (*verifFile, error) {
	f := vfs.lookup(name)
	if !f.exists {
		if flag&verifO_CREATE == 0 {
			return nil, verifErrNotExist
		}
		f.exists = true
		f.v = nil
		f.dExists, f.d = true, nil // directory entries are treated as immediately durable (stated assumption)
		vfs.journal = append(vfs.journal, verifEffect{kind: 'c', file: f})
	}
	h := &verifFile{data: f, appendMode: flag&verifO_APPEND != 0}
	if flag&verifO_TRUNC != 0 && len(f.v) > 0 {
		// opening with O_TRUNC empties the file at once (an effect of its own in the journal)
		h.Truncate(0)
	}
	return h, nil
}

func verifReadFile(name string) ([]byte, error) {
	f := vfs.lookup(name)
	if !f.exists {
		return nil, verifErrNotExist
	}
	return append([]byte{}, f.v...), nil
}

func verifRemove(name string) error {
	f := vfs.lookup(name)
	if !f.exists {
		return verifErrNotExist
	}
	// POSIX unlink: the directory entry goes, the data stays for handles that are still open; a file created under
	// the same name afterwards is a different file
	f.exists, f.unlinked = false, true
	f.dExists, f.d = false, nil
	vfs.journal = append(vfs.journal, verifEffect{kind: 'r', file: f})
	return nil
}

func (f *verifFile) Name() string { return f.data.name }

func (f *verifFile) Seek(offset int64, whence int) (int64, error) {
	switch whence {
	case io.SeekStart:
		f.off = int(offset)
	case io.SeekEnd:
		f.off = len(f.data.v) + int(offset)
	default:
		f.off += int(offset)
	}
	return int64(f.off), nil
}

func (f *verifFile) Write(p []byte) (int, error) {
	if f.closed {
		return 0, errors.New("file already closed")
	}
	if f.appendMode {
		f.off = len(f.data.v)
	}
	end := f.off + len(p)
	v := f.data.v
	for len(v) < end {
		v = append(v, 0)
	}
	v = append([]byte{}, v...)
	copy(v[f.off:], p)
	f.data.v = v
	vfs.journal = append(vfs.journal, verifEffect{kind: 'w', file: f.data, off: f.off, data: append([]byte{}, p...)})
	vfs.writes++
	f.off = end
	return len(p), nil
}

func (f *verifFile) Read(p []byte) (int, error) {
	if f.off >= len(f.data.v) {
		return 0, io.EOF
	}
	n := copy(p, f.data.v[f.off:])
	f.off += n
	return n, nil
}

func (f *verifFile) ReadAt(p []byte, off int64) (int, error) {
	if int(off) >= len(f.data.v) {
		return 0, io.EOF
	}
	n := copy(p, f.data.v[off:])
	if n < len(p) {
		return n, io.EOF
	}
	return n, nil
}

func (f *verifFile) Sync() error {
	if f.closed {
		return errors.New("file already closed")
	}
	f.data.d = append([]byte{}, f.data.v...)
	f.data.dExists = f.data.exists
	vfs.journal = append(vfs.journal, verifEffect{kind: 's', file: f.data})
	return nil
}

func (f *verifFile) Close() error {
	if f.closed {
		return errors.New("file already closed")
	}
	f.closed = true
	return nil
}

// ---- crash machinery

// mark remembers the present state; effects are counted from here.
func (fs *verifFileSystem) mark() {
	fs.journal = nil
	fs.baseV, fs.baseD, fs.baseExists, fs.baseDExist, fs.baseUnlinked = nil, nil, nil, nil, nil
	for _, f := range fs.files {
		fs.baseV = append(fs.baseV, append([]byte{}, f.v...))
		fs.baseD = append(fs.baseD, append([]byte{}, f.d...))
		fs.baseExists = append(fs.baseExists, f.exists)
		fs.baseDExist = append(fs.baseDExist, f.dExists)
		fs.baseUnlinked = append(fs.baseUnlinked, f.unlinked)
	}
}

func (fs *verifFileSystem) index(f *verifFileData) int {
	for i, g := range fs.files {
		if g == f {
			return i
		}
	}
	return -1
}

// crash rebuilds the file system as a process death (powerLoss=false: all completed effects plus the first
// cut bytes of effect i if it is a write) or a power loss (only synced data) at effect index i would leave it.
func (fs *verifFileSystem) crash(i, cut int, powerLoss bool) {
	nBase := len(fs.baseV)
	// files created after the mark start from nothing
	for k, f := range fs.files {
		if k < nBase {
			f.v, f.d = append([]byte{}, fs.baseV[k]...), append([]byte{}, fs.baseD[k]...)
			f.exists, f.dExists, f.unlinked = fs.baseExists[k], fs.baseDExist[k], fs.baseUnlinked[k]
		} else {
			f.v, f.d, f.exists, f.dExists, f.unlinked = nil, nil, false, false, false
		}
	}
	apply := func(e verifEffect, n int) {
		f := e.file
		switch e.kind {
		case 'c':
			f.exists, f.v = true, nil
			// directory entries are treated as immediately durable (stated assumption)
			f.dExists = true
		case 'r':
			f.exists, f.unlinked = false, true
			f.dExists, f.d = false, nil
		case 'w':
			end := e.off + n
			v := append([]byte{}, f.v...)
			for len(v) < end {
				v = append(v, 0)
			}
			copy(v[e.off:], e.data[:n])
			f.v = v
		case 's':
			f.d = append([]byte{}, f.v...)
			f.dExists = f.exists
		case 't':
			v := append([]byte{}, f.v...)
			for len(v) < e.off {
				v = append(v, 0)
			}
			f.v = v[:e.off]
		}
	}
	for k := 0; k < i && k < len(fs.journal); k++ {
		apply(fs.journal[k], len(fs.journal[k].data))
	}
	if !powerLoss && i < len(fs.journal) && fs.journal[i].kind == 'w' {
		apply(fs.journal[i], cut)
	}
	if powerLoss {
		for _, f := range fs.files {
			f.v = append([]byte{}, f.d...)
			f.exists = f.dExists
		}
	} else {
		for _, f := range fs.files {
			f.d, f.dExists = append([]byte{}, f.v...), f.exists
		}
	}
	fs.journal = nil
}

// further *os.File methods a change to the store may start using
func (f *verifFile) WriteString(s string) (int, error) { return f.Write([]byte(s)) }

func (f *verifFile) WriteAt(p []byte, off int64) (int, error) {
	save := f.off
	f.off = int(off)
	n, err := f.Write(p)
	f.off = save
	return n, err
}

func (f *verifFile) Truncate(size int64) error {
	v := append([]byte{}, f.data.v...)
	for int64(len(v)) < size {
		v = append(v, 0)
	}
	f.data.v = v[:size]
	vfs.journal = append(vfs.journal, verifEffect{kind: 't', file: f.data, off: int(size)})
	return nil
}

// verifGlob stands in for filepath.Glob over the in-memory files.
func verifGlob(pattern string) ([]string, error) {
	var out []string
	for _, f := range vfs.files {
		if !f.exists {
			continue
		}
		ok, err := path.Match(pattern, f.name)
		if err != nil {
			return nil, err
		}
		if ok {
			out = append(out, f.name)
		}
	}
	return out, nil
}
