//go:build verif

package sql

import (
	"time"

	"github.com/quickfixgo/quickfix"
)

func init() {
	verifRegister("C16_sql", VerifHarness_C16_sql)
	verifRegister("C17_sql", VerifHarness_C17_sql)
}

var c16ID = quickfix.SessionID{BeginString: "FIX.4.2", SenderCompID: "S", TargetCompID: "T"}
var c16IDOther = quickfix.SessionID{BeginString: "FIX.4.2", SenderCompID: "S", TargetCompID: "T2"}

func c16Open(id quickfix.SessionID) (*sqlStore, error) {
	return newSQLStore(id, "sqlite3", "mem", defaultMessagesTable, defaultSessionsTable, 0*time.Second)
}

type c16sqlMsg struct {
	seq int
	b   []byte
}

func c16sqlBytes(name string) []byte {
	n := verifConc(ndInt(name+".len", 1, 2+verifTier()))
	return ndBytes(name, n)
}

// C16_sql: the SQL store (over a transactional in-memory database stand-in) answers like the abstract store.
func VerifHarness_C16_sql() {
	verifTheDB = &verifSQLDB{failAt: -1}
	store, err := c16Open(c16ID)
	verifAssert(err == nil, "sql-store-opens")
	if err != nil {
		return
	}
	other, err := c16Open(c16IDOther)
	verifAssume(err == nil)
	ob := c16sqlBytes("other")
	verifAssume(other.SaveMessageAndIncrNextSenderMsgSeqNum(33, ob) == nil)
	N, T, last := 1, 1, 9
	var msgs []c16sqlMsg
	var cur quickfix.MessageStore = store
	for k := 0; k < 3; k++ {
		switch verifConc(ndInt("op", 0, 7)) {
		case 0:
			verifCase("set-sender")
			x := ndInt("x", 1, 120)
			verifAssert(cur.SetNextSenderMsgSeqNum(x) == nil, "sql-op-succeeds")
			N = x
		case 1:
			verifCase("incr-target")
			verifAssert(cur.IncrNextTargetMsgSeqNum() == nil, "sql-op-succeeds")
			T++
		case 2:
			verifCase("save")
			seq := last + 1 + verifConc(ndInt("seq-gap", 0, 1))
			b := c16sqlBytes("msg")
			verifAssert(cur.SaveMessage(seq, b) == nil, "sql-op-succeeds")
			msgs, last = append(msgs, c16sqlMsg{seq, b}), seq
		case 3:
			verifCase("save-and-incr")
			seq := last + 1 + verifConc(ndInt("seq-gap", 0, 1))
			b := c16sqlBytes("msg")
			verifAssert(cur.SaveMessageAndIncrNextSenderMsgSeqNum(seq, b) == nil, "sql-op-succeeds")
			msgs, last = append(msgs, c16sqlMsg{seq, b}), seq
			N++
		case 4:
			verifCase("get-range")
			b, e := ndInt("begin", 9, 17), ndInt("end", 9, 17)
			got, err := cur.GetMessages(b, e)
			verifAssert(err == nil, "sql-op-succeeds")
			var want []c16sqlMsg
			for _, m := range msgs {
				if m.seq >= b && m.seq <= e {
					want = append(want, m)
				}
			}
			verifAssert(len(got) == len(want), "sql-range-same-number-of-messages")
			if len(got) == len(want) {
				for i := range got {
					verifAssert(verifEqBytes(got[i], want[i].b), "sql-range-messages-byte-identical-in-order")
				}
			}
		case 5:
			verifCase("refresh")
			verifAssert(cur.Refresh() == nil, "sql-op-succeeds")
		case 6:
			verifCase("reset")
			verifAssert(cur.Reset() == nil, "sql-op-succeeds")
			N, T, msgs, last = 1, 1, nil, 9
		case 7:
			verifCase("reopen")
			cur.Close()
			s2, err := c16Open(c16ID)
			verifAssert(err == nil, "sql-store-reopens")
			if err != nil {
				return
			}
			cur = s2
		}
		verifAssert(cur.NextSenderMsgSeqNum() == N, "sql-sender-counter")
		verifAssert(cur.NextTargetMsgSeqNum() == T, "sql-target-counter")
	}
	got, err := cur.GetMessages(8, 18)
	verifAssert(err == nil && len(got) == len(msgs), "sql-final-read")
	if err == nil && len(got) == len(msgs) {
		for i := range got {
			verifAssert(verifEqBytes(got[i], msgs[i].b), "sql-final-messages-byte-identical-in-order")
		}
	}
	og, err := other.GetMessages(1, 70)
	verifAssert(err == nil && len(og) == 1 && verifEqBytes(og[0], ob), "sql-sessions-sharing-a-database-do-not-interfere")
	verifObserve("N", cur.NextSenderMsgSeqNum())
}

// C17_sql: a failure of any statement of save-and-increment (Begin, the two Execs, Commit) leaves neither the
// message nor the increment behind; success leaves both.
func VerifHarness_C17_sql() {
	verifTheDB = &verifSQLDB{failAt: -1}
	store, err := c16Open(c16ID)
	verifAssume(err == nil)
	N := ndInt("N", 1, 50)
	verifAssume(store.SetNextSenderMsgSeqNum(N) == nil)
	b := c16sqlBytes("msg")
	base := verifTheDB.calls
	fail := verifConc(ndInt("failing-call", -1, 3)) // -1: none; 0 Begin, 1 insert, 2 update, 3 Commit
	if fail >= 0 {
		verifTheDB.failAt = base + fail
	}
	err = store.SaveMessageAndIncrNextSenderMsgSeqNum(N, b)
	verifTheDB.failAt = -1
	// what the database now holds, seen by a fresh store
	fresh, ferr := c16Open(c16ID)
	verifAssume(ferr == nil)
	got, gerr := fresh.GetMessages(N, N)
	verifAssume(gerr == nil)
	if fail >= 0 {
		verifCase("statement-fails")
		verifAssert(err != nil, "sql-failure-reported")
		verifAssert(len(got) == 0, "sql-failure-leaves-no-message")
		verifAssert(fresh.NextSenderMsgSeqNum() == N, "sql-failure-leaves-no-increment")
		verifAssert(store.NextSenderMsgSeqNum() == N, "sql-failure-leaves-cache-unchanged")
	} else {
		verifCase("all-statements-succeed")
		verifAssert(err == nil, "sql-success")
		verifAssert(len(got) == 1 && verifEqBytes(got[0], b), "sql-success-message-stored")
		verifAssert(fresh.NextSenderMsgSeqNum() == N+1 && store.NextSenderMsgSeqNum() == N+1, "sql-success-counter-advanced")
	}
}
