//go:build verif

package sql

// In-memory stand-in for database/sql used by the overlay copy of sql_store.go (the engine renames *sql.DB,
// sql.Open and sql.ErrNoRows). Two tables keyed by the eight SessionID columns; statements are recognised by
// their shape; a transaction buffers its statements until Commit; every fallible call can be made to fail
// (failAt = index of the call that fails). The same code runs symbolically and in native replay.

import (
	"errors"
	"strings"
	"time"
)

var verifSQLErrNoRows = errors.New("sql: no rows in result set")
var verifSQLErrInjected = errors.New("injected statement failure")

type verifSQLSession struct {
	id      [8]string
	ctime   time.Time
	in, out int
}

type verifSQLMessage struct {
	id  [8]string
	seq int
	msg string
}

type verifSQLDB struct {
	sessions []*verifSQLSession
	messages []*verifSQLMessage
	calls    int
	failAt   int
}

type verifSQLResult struct{}

var verifTheDB = &verifSQLDB{failAt: -1}

func verifSQLOpen(string, string) (*verifSQLDB, error) { return verifTheDB, nil }

func (db *verifSQLDB) SetConnMaxLifetime(time.Duration) {}
func (db *verifSQLDB) Ping() error                       { return nil }
func (db *verifSQLDB) Close() error                      { return nil }

func (db *verifSQLDB) fails() bool {
	db.calls++
	return db.failAt == db.calls-1
}

func verifSQLID(args []interface{}) (id [8]string) {
	for i := 0; i < 8 && i < len(args); i++ {
		id[i], _ = args[i].(string)
	}
	return
}

func (db *verifSQLDB) session(id [8]string) *verifSQLSession {
	for _, s := range db.sessions {
		if s.id == id {
			return s
		}
	}
	return nil
}

// apply executes one data-changing statement.
func (db *verifSQLDB) apply(q string, args []interface{}) error {
	q = strings.TrimSpace(q)
	switch {
	case strings.HasPrefix(q, "INSERT") && strings.Contains(q, "msgseqnum, message"):
		seq, _ := args[0].(int)
		msg, _ := args[1].(string)
		id := verifSQLID(args[2:])
		for _, m := range db.messages {
			if m.id == id && m.seq == seq {
				return errors.New("UNIQUE constraint failed: messages")
			}
		}
		db.messages = append(db.messages, &verifSQLMessage{id: id, seq: seq, msg: msg})
	case strings.HasPrefix(q, "INSERT") && strings.Contains(q, "creation_time"):
		ct, _ := args[0].(time.Time)
		in, _ := args[1].(int)
		out, _ := args[2].(int)
		id := verifSQLID(args[3:])
		if db.session(id) != nil {
			return errors.New("UNIQUE constraint failed: sessions")
		}
		db.sessions = append(db.sessions, &verifSQLSession{id: id, ctime: ct, in: in, out: out})
	case strings.HasPrefix(q, "UPDATE") && strings.Contains(q, "SET creation_time=?"):
		if s := db.session(verifSQLID(args[3:])); s != nil {
			s.ctime, _ = args[0].(time.Time)
			s.in, _ = args[1].(int)
			s.out, _ = args[2].(int)
		}
	case strings.HasPrefix(q, "UPDATE") && strings.Contains(q, "SET incoming_seqnum=?, outgoing_seqnum=?"):
		if s := db.session(verifSQLID(args[2:])); s != nil {
			s.in, _ = args[0].(int)
			s.out, _ = args[1].(int)
		}
	case strings.HasPrefix(q, "UPDATE") && strings.Contains(q, "SET outgoing_seqnum=?"):
		if s := db.session(verifSQLID(args[1:])); s != nil {
			s.out, _ = args[0].(int)
		}
	case strings.HasPrefix(q, "UPDATE") && strings.Contains(q, "SET incoming_seqnum=?"):
		if s := db.session(verifSQLID(args[1:])); s != nil {
			s.in, _ = args[0].(int)
		}
	case strings.HasPrefix(q, "UPDATE") && strings.Contains(q, "SET message=?"):
		msg, _ := args[0].(string)
		id := verifSQLID(args[1:])
		seq, _ := args[9].(int)
		for _, m := range db.messages {
			if m.id == id && m.seq == seq {
				m.msg = msg
			}
		}
	case strings.HasPrefix(q, "DELETE"):
		id := verifSQLID(args)
		var keep []*verifSQLMessage
		for _, m := range db.messages {
			if m.id != id {
				keep = append(keep, m)
			}
		}
		db.messages = keep
	default:
		return errors.New("statement not understood by the SQL stand-in: " + q)
	}
	return nil
}

func (db *verifSQLDB) Exec(q string, args ...interface{}) (verifSQLResult, error) {
	if db.fails() {
		return verifSQLResult{}, verifSQLErrInjected
	}
	return verifSQLResult{}, db.apply(q, args)
}

type verifSQLStmt struct {
	q    string
	args []interface{}
}

type verifSQLTx struct {
	db      *verifSQLDB
	pending []verifSQLStmt
	done    bool
}

func (db *verifSQLDB) Begin() (*verifSQLTx, error) {
	if db.fails() {
		return nil, verifSQLErrInjected
	}
	return &verifSQLTx{db: db}, nil
}

func (tx *verifSQLTx) Exec(q string, args ...interface{}) (verifSQLResult, error) {
	if tx.done {
		return verifSQLResult{}, errors.New("sql: transaction has already been committed or rolled back")
	}
	if tx.db.fails() {
		return verifSQLResult{}, verifSQLErrInjected
	}
	tx.pending = append(tx.pending, verifSQLStmt{q, args})
	return verifSQLResult{}, nil
}

func (tx *verifSQLTx) Commit() error {
	if tx.done {
		return errors.New("sql: transaction has already been committed or rolled back")
	}
	tx.done = true
	if tx.db.fails() {
		return verifSQLErrInjected
	}
	// atomic: a statement that cannot be applied aborts the whole transaction
	saveS := append([]*verifSQLSession{}, tx.db.sessions...)
	saveM := append([]*verifSQLMessage{}, tx.db.messages...)
	var snapS []verifSQLSession
	for _, s := range saveS {
		snapS = append(snapS, *s)
	}
	for _, st := range tx.pending {
		if err := tx.db.apply(st.q, st.args); err != nil {
			tx.db.messages = saveM
			for i, s := range saveS {
				*s = snapS[i]
			}
			tx.db.sessions = saveS
			return err
		}
	}
	return nil
}

func (tx *verifSQLTx) Rollback() error {
	if tx.done {
		return errors.New("sql: transaction has already been committed or rolled back")
	}
	tx.done = true
	tx.pending = nil
	return nil
}

type verifSQLRow struct {
	s   *verifSQLSession
	err error
}

func (db *verifSQLDB) QueryRow(q string, args ...interface{}) *verifSQLRow {
	if db.fails() {
		return &verifSQLRow{err: verifSQLErrInjected}
	}
	s := db.session(verifSQLID(args))
	if s == nil {
		return &verifSQLRow{err: verifSQLErrNoRows}
	}
	return &verifSQLRow{s: s}
}

func (r *verifSQLRow) Scan(dest ...interface{}) error {
	if r.err != nil {
		return r.err
	}
	if p, ok := dest[0].(*time.Time); ok {
		*p = r.s.ctime
	}
	if p, ok := dest[1].(*int); ok {
		*p = r.s.in
	}
	if p, ok := dest[2].(*int); ok {
		*p = r.s.out
	}
	return nil
}

type verifSQLRows struct {
	msgs []string
	i    int
}

func (db *verifSQLDB) Query(q string, args ...interface{}) (*verifSQLRows, error) {
	if db.fails() {
		return nil, verifSQLErrInjected
	}
	id := verifSQLID(args)
	lo, _ := args[8].(int)
	hi, _ := args[9].(int)
	// ORDER BY msgseqnum
	var sel []*verifSQLMessage
	for _, m := range db.messages {
		if m.id == id && m.seq >= lo && m.seq <= hi {
			k := len(sel)
			sel = append(sel, m)
			for k > 0 && sel[k-1].seq > m.seq {
				sel[k], sel[k-1] = sel[k-1], sel[k]
				k--
			}
		}
	}
	rows := &verifSQLRows{i: -1}
	for _, m := range sel {
		rows.msgs = append(rows.msgs, m.msg)
	}
	return rows, nil
}

func (r *verifSQLRows) Next() bool {
	r.i++
	return r.i < len(r.msgs)
}

func (r *verifSQLRows) Scan(dest ...interface{}) error {
	switch p := dest[0].(type) {
	case *[]byte:
		*p = []byte(r.msgs[r.i])
	case *string:
		*p = r.msgs[r.i]
	default:
		return errors.New("sql: Scan error: unsupported destination type")
	}
	return nil
}

func (r *verifSQLRows) Close() error { return nil }
func (r *verifSQLRows) Err() error   { return nil }
