//go:build verif

package datadictionary

import "encoding/xml"

func init() {
	verifRegister("C19_build", VerifHarness_C19_build)
	verifRegister("C19_dangling", VerifHarness_C19_dangling)
	verifRegister("C19_cycle", VerifHarness_C19_cycle)
}

func c19Req(name string) string {
	if ndBool(name) {
		return "Y"
	}
	return "N"
}

func c19Field(name, req string) *XMLComponentMember {
	return &XMLComponentMember{XMLName: xml.Name{Local: "field"}, Name: name, Required: req}
}

func c19Comp(name, req string) *XMLComponentMember {
	return &XMLComponentMember{XMLName: xml.Name{Local: "component"}, Name: name, Required: req}
}

func c19Group(name, req string, members ...*XMLComponentMember) *XMLComponentMember {
	return &XMLComponentMember{XMLName: xml.Name{Local: "group"}, Name: name, Required: req, Members: members}
}

func c19Fields() []*XMLField {
	return []*XMLField{
		{Number: 1, Name: "F1", Type: "STRING"},
		{Number: 2, Name: "F2", Type: "INT", Values: []*XMLValue{{Enum: "1", Description: "ONE"}, {Enum: "2", Description: "TWO"}}},
		{Number: 3, Name: "F3", Type: "NUMINGROUP"},
		{Number: 4, Name: "F4", Type: "CHAR"},
		{Number: 5, Name: "F5", Type: "BOOLEAN"},
		{Number: 6, Name: "F6", Type: "UTCTIMESTAMP"},
		{Number: 7, Name: "F7", Type: "NUMINGROUP"},
		{Number: 8, Name: "BeginString", Type: "STRING"},
		{Number: 10, Name: "CheckSum", Type: "STRING"},
	}
}

var c19Tag = map[string]int{"F1": 1, "F2": 2, "F3": 3, "F4": 4, "F5": 5, "F6": 6, "F7": 7, "BeginString": 8, "CheckSum": 10}

// ---- independent oracle: a plain recursive walk over the XML structure

type c19Walk struct {
	doc      *XMLDoc
	tags     map[int]bool
	required map[int]bool
	top      []int // top-level (flattened through components) field tags in declaration order
}

func (w *c19Walk) comp(name string) *XMLComponent {
	for _, c := range w.doc.Components {
		if c.Name == name {
			return c
		}
	}
	return nil
}

// members walks a member list; reqCtx: every enclosing component so far was required; top: not inside a group.
func (w *c19Walk) members(ms []*XMLComponentMember, reqCtx, top bool, order *[]int) {
	for _, m := range ms {
		switch m.XMLName.Local {
		case "component":
			c := w.comp(m.Name)
			w.members(c.Members, reqCtx && m.Required == "Y", top, order)
		case "group":
			t := c19Tag[m.Name]
			w.tags[t] = true
			*order = append(*order, t)
			if top {
				w.top = append(w.top, t)
				if reqCtx && m.Required == "Y" {
					w.required[t] = true
				}
			}
			var sub []int
			w.members(m.Members, false, false, &sub)
		default:
			t := c19Tag[m.Name]
			w.tags[t] = true
			*order = append(*order, t)
			if top {
				w.top = append(w.top, t)
				if reqCtx && m.Required == "Y" {
					w.required[t] = true
				}
			}
		}
	}
}

// groupOrder: member tags of a group in declaration order with components expanded in place (one level of groups).
func (w *c19Walk) groupOrder(g *XMLComponentMember) []int {
	var order []int
	var rec func(ms []*XMLComponentMember)
	rec = func(ms []*XMLComponentMember) {
		for _, m := range ms {
			if m.XMLName.Local == "component" {
				rec(w.comp(m.Name).Members)
			} else {
				order = append(order, c19Tag[m.Name])
			}
		}
	}
	rec(g.Members)
	return order
}

func c19Doc() (*XMLDoc, *XMLComponentMember) {
	// B = [F4, (F5)?]
	b := &XMLComponent{Name: "B", Members: []*XMLComponentMember{c19Field("F4", c19Req("B.F4.required"))}}
	var c *XMLComponent
	if ndBool("B.has-component-C") {
		// a third level: B = [F4, component C], C = [F5]
		c = &XMLComponent{Name: "C", Members: []*XMLComponentMember{c19Field("F5", c19Req("C.F5.required"))}}
		b.Members = append(b.Members, c19Comp("C", c19Req("B.C.required")))
	} else if ndBool("B.has-F5") {
		b.Members = append(b.Members, c19Field("F5", c19Req("B.F5.required")))
	}
	// A = [F1, (component B | group F3{F2, component B})]
	a := &XMLComponent{Name: "A", Members: []*XMLComponentMember{c19Field("F1", c19Req("A.F1.required"))}}
	var grp *XMLComponentMember
	if ndBool("A.second-is-group") {
		verifCase("group-in-component")
		grp = c19Group("F3", c19Req("A.group.required"), c19Field("F2", "Y"), c19Comp("B", c19Req("A.group.B.required")))
		a.Members = append(a.Members, grp)
	} else {
		verifCase("component-in-component")
		a.Members = append(a.Members, c19Comp("B", c19Req("A.B.required")))
	}
	// message = [F6, component A, (component B)?]
	msg := &XMLComponent{Name: "M", MsgType: "D", Members: []*XMLComponentMember{
		c19Field("F6", c19Req("M.F6.required")), c19Comp("A", c19Req("M.A.required"))}}
	if grp == nil && ndBool("M.has-B") {
		msg.Members = append(msg.Members, c19Comp("B", c19Req("M.B.required")))
	}
	comps := []*XMLComponent{a, b}
	if ndBool("declare-B-first") {
		comps = []*XMLComponent{b, a}
	}
	if c != nil {
		comps = append(comps, c) // declared after its first use
	}
	doc := &XMLDoc{Type: "FIX", Major: "4", Minor: "4", Fields: c19Fields(), Components: comps, Messages: []*XMLComponent{msg},
		Header:  &XMLComponent{Name: "Header", Members: []*XMLComponentMember{c19Field("BeginString", "Y")}},
		Trailer: &XMLComponent{Name: "Trailer", Members: []*XMLComponentMember{c19Field("CheckSum", "Y")}}}
	return doc, grp
}

func VerifHarness_C19_build() {
	doc, grp := c19Doc()
	dict, err := new(builder).build(doc)
	verifAssert(err == nil && dict != nil, "well-formed-specification-loads")
	if err != nil {
		return
	}
	md := dict.Messages["D"]
	verifAssert(md != nil, "message-defined")
	if md == nil {
		return
	}
	w := &c19Walk{doc: doc, tags: map[int]bool{}, required: map[int]bool{}}
	var order []int
	w.members(doc.Messages[0].Members, true, true, &order)
	for t := 1; t <= 6; t++ {
		_, inTags := md.Tags[t]
		verifAssert(inTags == w.tags[t], "tags-are-exactly-the-reachable-fields")
		_, isReq := md.RequiredTags[t]
		verifAssert(isReq == w.required[t], "required-exactly-direct-plus-required-components")
		_, inFields := md.Fields[t]
		isTop := false
		for _, x := range w.top {
			if x == t {
				isTop = true
			}
		}
		verifAssert(inFields == isTop, "fields-are-the-top-level-fields")
	}
	if grp != nil {
		gd := md.Fields[3]
		verifAssert(gd != nil && gd.IsGroup(), "group-recorded-as-group")
		if gd != nil {
			want := w.groupOrder(grp)
			verifAssert(len(gd.Fields) == len(want), "group-members-complete")
			if len(gd.Fields) == len(want) {
				for i, f := range gd.Fields {
					verifAssert(f.Tag() == want[i], "group-members-in-declaration-order-components-expanded")
				}
			}
		}
	}
	// types and enumerations as declared
	for _, f := range doc.Fields {
		ft := dict.FieldTypeByTag[f.Number]
		verifAssert(ft != nil && ft.Type == f.Type && ft.Name() == f.Name && len(ft.Enums) == len(f.Values), "field-type-and-enums-as-declared")
		if ft != nil {
			for _, v := range f.Values {
				e, ok := ft.Enums[v.Enum]
				verifAssert(ok && e.Value == v.Enum && e.Description == v.Description, "enum-values-as-declared")
			}
		}
	}
	_, hreq := dict.Header.RequiredTags[8]
	_, treq := dict.Trailer.RequiredTags[10]
	verifAssert(hreq && treq, "header-trailer-required-fields")
	verifObserve("ntags", len(md.Tags))
}

// C19_dangling: one reference points at an undefined field or component: the file is refused.
func VerifHarness_C19_dangling() {
	doc, grp := c19Doc()
	site := verifConc(ndInt("site", 0, 8))
	switch site {
	case 6, 7, 8:
		// a component that no message, header or trailer uses, declared last: its references count all the same
		var m *XMLComponentMember
		switch site {
		case 6:
			m = c19Field("Nope", "N")
		case 7:
			m = c19Comp("NoComp", "N")
		default:
			m = c19Group("F7", "N", c19Field("Nope", "N"))
		}
		doc.Components = append(doc.Components, &XMLComponent{Name: "Unused", Members: []*XMLComponentMember{c19Field("F1", "N"), m}})
	case 0:
		doc.Messages[0].Members[0].Name = "Nope" // field of the message
	case 1:
		doc.Messages[0].Members[1].Name = "NoComp" // component of the message
	case 2:
		for _, c := range doc.Components {
			if c.Name == "A" {
				c.Members[0].Name = "Nope" // field of a component
			}
		}
	case 3:
		verifAssume(grp != nil)
		grp.Members[0].Name = "Nope" // field of a group
	case 4:
		verifAssume(grp != nil)
		grp.Members[1].Name = "NoComp" // component of a group
	case 5:
		doc.Header.Members[0].Name = "Nope"
	}
	_, err := new(builder).build(doc)
	verifAssert(err != nil, "dangling-reference-refused")
}

// C19_cycle: a component that (transitively) contains itself must not hang or crash the loader.
func VerifHarness_C19_cycle() {
	doc, _ := c19Doc()
	for _, c := range doc.Components {
		if c.Name == "B" {
			if ndBool("self") {
				c.Members = append(c.Members, c19Comp("B", "N"))
			} else {
				c.Members = append(c.Members, c19Comp("A", "N"))
			}
		}
	}
	_, err := new(builder).build(doc)
	_ = err
	verifObserve("returned", 1)
}

func init() { verifRegister("C19_siblings", VerifHarness_C19_siblings) }

// C19_siblings: two components that start with the same sub-component and continue with members of their own
// (the expanded field lists must not share storage), each used by a message and by a group.
func VerifHarness_C19_siblings() {
	nb := verifConc(ndInt("B.fields", 1, 3))
	names := []string{"F4", "F5", "F2"}
	b := &XMLComponent{Name: "B"}
	for i := 0; i < nb; i++ {
		b.Members = append(b.Members, c19Field(names[i], c19Req("B."+names[i]+".required")))
	}
	p1 := &XMLComponent{Name: "P1", Members: []*XMLComponentMember{c19Comp("B", c19Req("P1.B.required")), c19Field("F1", c19Req("P1.F1.required"))}}
	p2 := &XMLComponent{Name: "P2", Members: []*XMLComponentMember{c19Comp("B", c19Req("P2.B.required")), c19Field("F6", "Y")}}
	m1 := &XMLComponent{Name: "M1", MsgType: "D", Members: []*XMLComponentMember{c19Comp("P1", "Y")}}
	grp := c19Group("F3", "N", c19Comp("P2", "Y"))
	m2 := &XMLComponent{Name: "M2", MsgType: "E", Members: []*XMLComponentMember{c19Comp("P2", c19Req("M2.P2.required")), grp}}
	var grp1 *XMLComponentMember
	if ndBool("group-uses-P1") {
		grp.Members[0].Name = "P1"
	} else if ndBool("two-groups-open-with-B") {
		// two groups (one per message) open with the same component and continue with a member of their own
		grp.Members = []*XMLComponentMember{c19Comp("B", "Y"), c19Field("F1", "N")}
		grp1 = c19Group("F7", "N", c19Comp("B", "Y"), c19Field("F6", "N"))
		m1.Members = append(m1.Members, grp1)
	}
	doc := &XMLDoc{Type: "FIX", Major: "4", Minor: "4", Fields: c19Fields(), Components: []*XMLComponent{b, p1, p2}, Messages: []*XMLComponent{m1, m2}}
	dict, err := new(builder).build(doc)
	verifAssert(err == nil, "well-formed-specification-loads")
	if err != nil {
		return
	}
	for mi, xm := range doc.Messages {
		md := dict.Messages[xm.MsgType]
		w := &c19Walk{doc: doc, tags: map[int]bool{}, required: map[int]bool{}}
		var order []int
		w.members(xm.Members, true, true, &order)
		for t := 1; t <= 7; t++ {
			_, inTags := md.Tags[t]
			verifAssert(inTags == w.tags[t], "tags-are-exactly-the-reachable-fields")
			_, isReq := md.RequiredTags[t]
			verifAssert(isReq == w.required[t], "required-exactly-direct-plus-required-components")
			_, inFields := md.Fields[t]
			isTop := false
			for _, x := range w.top {
				if x == t {
					isTop = true
				}
			}
			verifAssert(inFields == isTop, "fields-are-the-top-level-fields")
		}
		if mi == 0 && grp1 != nil {
			gd := md.Fields[7]
			want := w.groupOrder(grp1)
			verifAssert(gd != nil && len(gd.Fields) == len(want), "group-members-complete")
			if gd != nil && len(gd.Fields) == len(want) {
				for i, f := range gd.Fields {
					verifAssert(f.Tag() == want[i], "group-members-in-declaration-order-components-expanded")
				}
			}
		}
		if mi == 1 {
			gd := md.Fields[3]
			want := w.groupOrder(grp)
			verifAssert(gd != nil && len(gd.Fields) == len(want), "group-members-complete")
			if gd != nil && len(gd.Fields) == len(want) {
				for i, f := range gd.Fields {
					verifAssert(f.Tag() == want[i], "group-members-in-declaration-order-components-expanded")
				}
			}
		}
	}
	// the components themselves list their own expansion
	for _, xc := range []*XMLComponent{p1, p2} {
		ct := dict.ComponentTypes[xc.Name]
		w := &c19Walk{doc: doc, tags: map[int]bool{}, required: map[int]bool{}}
		var order []int
		w.members(xc.Members, true, true, &order)
		verifAssert(ct != nil && len(ct.Fields()) == len(order), "component-fields-complete")
		if ct != nil && len(ct.Fields()) == len(order) {
			for i, f := range ct.Fields() {
				verifAssert(f.Tag() == order[i], "component-fields-are-its-own-expansion")
			}
		}
	}
}

func init() { verifRegister("C19_tworoutes", VerifHarness_C19_tworoutes) }

// C19_tworoutes: a repeating group reachable by two routes with different member lists (once nested in another group
// or directly, once more directly with more or fewer members): the message's tag set is still exactly what the walk
// over the declaration reaches.
func VerifHarness_C19_tworoutes() {
	poor := c19Group("F7", "N", c19Field("F4", "Y"))
	rich := c19Group("F7", "N", c19Field("F4", "Y"), c19Field("F5", "N"))
	first, second := poor, rich
	if ndBool("richer-first") {
		first, second = rich, poor
	}
	var members []*XMLComponentMember
	members = append(members, c19Field("F6", "Y"))
	if ndBool("first-route-nested-in-a-group") {
		verifCase("nested-then-direct")
		members = append(members, c19Group("F3", "N", c19Field("F2", "Y"), first))
	} else if ndBool("first-route-through-a-component") {
		verifCase("component-then-direct")
		members = append(members, c19Comp("A", "N"))
	} else {
		verifCase("direct-twice")
		members = append(members, first)
	}
	members = append(members, second)
	msg := &XMLComponent{Name: "M", MsgType: "D", Members: members}
	a := &XMLComponent{Name: "A", Members: []*XMLComponentMember{c19Field("F1", "N"), first}}
	doc := &XMLDoc{Type: "FIX", Major: "4", Minor: "4", Fields: c19Fields(), Components: []*XMLComponent{a}, Messages: []*XMLComponent{msg},
		Header:  &XMLComponent{Name: "Header", Members: []*XMLComponentMember{c19Field("BeginString", "Y")}},
		Trailer: &XMLComponent{Name: "Trailer", Members: []*XMLComponentMember{c19Field("CheckSum", "Y")}}}
	dict, err := new(builder).build(doc)
	verifAssert(err == nil && dict != nil, "well-formed-specification-loads")
	if err != nil {
		return
	}
	md := dict.Messages["D"]
	verifAssert(md != nil, "message-defined")
	if md == nil {
		return
	}
	w := &c19Walk{doc: doc, tags: map[int]bool{}, required: map[int]bool{}}
	var order []int
	w.members(msg.Members, true, true, &order)
	for t := 1; t <= 7; t++ {
		_, inTags := md.Tags[t]
		verifAssert(inTags == w.tags[t], "tags-are-exactly-the-reachable-fields")
	}
}
