//go:build verif

package internal

import "time"

func init() {
	verifRegister("C18_daily", VerifHarness_C18_daily)
	verifRegister("C18_weekly", VerifHarness_C18_weekly)
	verifRegister("C18_same_daily", VerifHarness_C18_same_daily)
	verifRegister("C18_same_weekly", VerifHarness_C18_same_weekly)
}

const (
	c18Day  = 86400
	c18Week = 7 * 86400
)

// c18Shifts: the zone picked has a daylight-saving shift inside the weeks the instants range over. The local times
// between 01:00 and 03:00 are then left out for instants and window edges (on the day of the shift they do not exist or
// exist twice, and the configuration cannot say which is meant).
var c18Shifts bool

// c18TZ builds a zone with one shift (TZif version 1 data for time.LoadLocationFromTZData): offset before, offset
// from the instant `at` on.
func c18TZ(name string, before, after int, at int64) *time.Location {
	be := func(b []byte, v int64) []byte {
		return append(b, byte(v>>24), byte(v>>16), byte(v>>8), byte(v))
	}
	d := []byte{'T', 'Z', 'i', 'f', 0, 0, 0, 0, 0, 0, 0, 0, 0, 0, 0, 0, 0, 0, 0, 0}
	d = be(d, 0) // isutcnt
	d = be(d, 0) // isstdcnt
	d = be(d, 0) // leapcnt
	d = be(d, 1) // timecnt
	d = be(d, 2) // typecnt
	d = be(d, 8) // charcnt
	d = be(d, at)
	d = append(d, 1)
	d = append(be(d, int64(before)), 0, 0)
	d = append(be(d, int64(after)), 1, 4)
	d = append(d, 'Z', 'Z', 'A', 0, 'Z', 'Z', 'B', 0)
	loc, err := time.LoadLocationFromTZData(name, d)
	if err != nil {
		panic(err)
	}
	return loc
}

// c18Zone picks UTC, a fixed-offset zone or a zone with a shift on Sunday 2024-01-21 at 02:00 local time (one hour
// forward, or one hour back).
func c18Zone() *time.Location {
	c18Shifts = false
	switch verifConc(ndInt("zone", 0, 4)) {
	case 1:
		return time.FixedZone("M5", -5*3600)
	case 2:
		return time.FixedZone("P530", 5*3600+1800)
	case 3:
		verifCase("zone-shifts-forward")
		c18Shifts = true
		return c18TZ("Verif/Forward", -5*3600, -4*3600, time.Date(2024, time.January, 21, 7, 0, 0, 0, time.UTC).Unix())
	case 4:
		verifCase("zone-shifts-back")
		c18Shifts = true
		return c18TZ("Verif/Back", -4*3600, -5*3600, time.Date(2024, time.January, 21, 6, 0, 0, 0, time.UTC).Unix())
	}
	return time.UTC
}

type c18Instant struct {
	t   time.Time
	day int // local day number in the schedule's zone (day 0 is a Sunday)
	sod int // local second of day
}

// c18Time makes a symbolic instant: chosen by its calendar fields in the schedule's zone, handed to the
// code under test as a UTC value (so the code has to convert it back to the configured zone).
func c18Time(name string, weeks int, loc *time.Location) c18Instant {
	wk := ndInt(name+".week", 0, weeks-1)
	wd := ndInt(name+".weekday", 0, 6)
	h := ndInt(name+".h", 0, 23)
	m := ndInt(name+".m", 0, 59)
	s := ndInt(name+".s", 0, 59)
	if c18Shifts {
		verifAssume(verifAnd(h != 1, h != 2))
	}
	d := 7 + 7*wk + wd
	return c18Instant{
		t:   time.Date(2024, time.January, 7+d, h, m, s, 0, loc).UTC(),
		day: d,
		sod: h*3600 + m*60 + s,
	}
}

func c18TOD(name string) (TimeOfDay, int) {
	h := ndInt(name+".h", 0, 23)
	m := ndInt(name+".m", 0, 59)
	s := ndInt(name+".s", 0, 59)
	if c18Shifts {
		verifAssume(verifAnd(h != 1, h != 2))
	}
	return NewTimeOfDay(h, m, s), h*3600 + m*60 + s
}

func c18Weekdays() []time.Weekday {
	n := verifConc(ndInt("nweekdays", 0, 2+verifTier()))
	w := make([]time.Weekday, n)
	for i := range w {
		w[i] = time.Weekday(ndInt("weekday", 0, 6))
	}
	return w
}

func c18InSet(w []time.Weekday, day int) bool {
	if len(w) == 0 {
		return true
	}
	for _, x := range w {
		if int(x) == day {
			return true
		}
	}
	return false
}

func c18AwayFrom(sod, edge int) bool {
	d := sod - edge
	return d > 1 || d < -1
}

// dailyWindow returns whether the local instant lies in a window and the day on which that window opened.
func c18DailyWindow(x c18Instant, start, end int, w []time.Weekday) (bool, int) {
	day, sod := x.day, x.sod
	if start < end {
		return c18InSet(w, day%7) && start <= sod && sod <= end, day
	}
	// overnight (or 24h) window: opened today at start, or yesterday and still open until end
	if sod >= start {
		return c18InSet(w, day%7), day
	}
	if sod <= end {
		return c18InSet(w, (day-1)%7), day - 1
	}
	return false, 0
}

func VerifHarness_C18_daily() {
	loc := c18Zone()
	st, start := c18TOD("start")
	et, end := c18TOD("end")
	w := c18Weekdays()
	r, err := NewTimeRangeInLocation(st, et, w, loc)
	verifAssume(err == nil)
	x := c18Time("t", 2+verifTier(), loc)
	sod := x.sod
	verifAssume(c18AwayFrom(sod, start) && c18AwayFrom(sod, end))
	want, _ := c18DailyWindow(x, start, end, w)
	got := r.IsInRange(x.t)
	if want {
		verifCase("inside")
	} else {
		verifCase("outside")
	}
	verifAssert(got == want, "daily-in-range-iff-in-window")
	if got {
		verifObserve("in", 1)
	} else {
		verifObserve("in", 0)
	}
}

// weeklyWindow: in-window flag and the index of the week in which the window opened.
func c18WeeklyWindow(x c18Instant, so, eo int) (bool, int) {
	week, sow := x.day/7, (x.day%7)*c18Day+x.sod
	if so < eo {
		return so <= sow && sow <= eo, week
	}
	if sow >= so {
		return true, week
	}
	if sow <= eo {
		return true, week - 1
	}
	return false, 0
}

func c18WeekRange(loc *time.Location) (*TimeRange, int, int) {
	st, start := c18TOD("start")
	et, end := c18TOD("end")
	sd := ndInt("startDay", 0, 6)
	ed := ndInt("endDay", 0, 6)
	r, err := NewWeekRangeInLocation(st, et, time.Weekday(sd), time.Weekday(ed), loc)
	verifAssume(err == nil)
	return r, sd*c18Day + start, ed*c18Day + end
}

func VerifHarness_C18_weekly() {
	loc := c18Zone()
	r, so, eo := c18WeekRange(loc)
	x := c18Time("t", 2+verifTier(), loc)
	sow := (x.day%7)*c18Day + x.sod
	verifAssume(c18AwayFrom(sow, so) && c18AwayFrom(sow, eo))
	want, _ := c18WeeklyWindow(x, so, eo)
	got := r.IsInRange(x.t)
	if want {
		verifCase("inside")
	} else {
		verifCase("outside")
	}
	verifAssert(got == want, "weekly-in-range-iff-in-window")
}

func VerifHarness_C18_same_daily() {
	loc := c18Zone()
	st, start := c18TOD("start")
	et, end := c18TOD("end")
	w := c18Weekdays()
	r, err := NewTimeRangeInLocation(st, et, w, loc)
	verifAssume(err == nil)
	a := c18Time("t1", 2+verifTier(), loc)
	b := c18Time("t2", 2+verifTier(), loc)
	for _, x := range []c18Instant{a, b} {
		sod := x.sod
		verifAssume(c18AwayFrom(sod, start) && c18AwayFrom(sod, end))
	}
	inA, kA := c18DailyWindow(a, start, end, w)
	inB, kB := c18DailyWindow(b, start, end, w)
	want := inA && inB && kA == kB
	got := r.IsInSameRange(a.t, b.t)
	if want {
		verifCase("same")
	} else {
		verifCase("different")
	}
	verifAssert(got == want, "daily-same-range-iff-same-window")
	verifAssert(got == r.IsInSameRange(b.t, a.t), "daily-same-range-symmetric")
}

func VerifHarness_C18_same_weekly() {
	loc := c18Zone()
	r, so, eo := c18WeekRange(loc)
	a := c18Time("t1", 2+verifTier(), loc)
	b := c18Time("t2", 2+verifTier(), loc)
	for _, x := range []c18Instant{a, b} {
		sow := (x.day%7)*c18Day + x.sod
		verifAssume(c18AwayFrom(sow, so) && c18AwayFrom(sow, eo))
	}
	inA, kA := c18WeeklyWindow(a, so, eo)
	inB, kB := c18WeeklyWindow(b, so, eo)
	want := inA && inB && kA == kB
	got := r.IsInSameRange(a.t, b.t)
	if want {
		verifCase("same")
	} else {
		verifCase("different")
	}
	verifAssert(got == want, "weekly-same-range-iff-same-window")
	verifAssert(got == r.IsInSameRange(b.t, a.t), "weekly-same-range-symmetric")
}
