#!/usr/bin/env python3
"""Regenerates /verif/MANIFEST.json from checks.json and tools/claims.json."""
import json
V='/verif'
props=[json.loads(l)['id'] for l in open(f'{V}/properties.jsonl')]
checks=json.load(open(f'{V}/checks.json'))
claims=json.load(open(f'{V}/tools/claims.json'))
TECH="solver-based bounded symbolic execution of the real Go code (own go/ssa interpreter + z3 over SMT-LIB2); counterexamples replayed natively"
def chk(pid):
    c=claims[pid]
    return {"property_id":pid,"quick_cmd":f"./bin/gosym check {pid} --tier quick","thorough_cmd":f"./bin/gosym check {pid} --tier thorough",
      "evidence_file":f"/verif/evidence/{pid}.json","replay_cmd_template":"./bin/gosym replay {path}","engine":"gosym",
      "level_claimed":{"category":"model_checking","text":c["text"],"design_ref":"DESIGN.md §5 "+pid},"level_note":c["note"],"technique":TECH}
claimed=[p for p in props if p in checks and p in claims and "text" in claims[p]]
m={"version":1,
 "setup_cmd":"cd /verif/engine && GOFLAGS=-mod=mod GOPROXY=off GOSUMDB=off GOTOOLCHAIN=local go build -o /verif/bin/gosym .",
 "hooks":{"guard":"verif","enable":"harness files (//go:build verif) are injected into /repo's packages with a go/packages overlay and -tags verif; nothing is committed to /repo","baseline_off_cmd":"cd /repo && go test -mod=mod -vet=off -count=1 ./...","source_commits":[],"add_only":True},
 "engines":[{"name":"gosym","path":"/verif/engine","serves_properties":claimed,"kind_free_text":"own symbolic interpreter for go/ssa (program rebuilt from /repo's working tree on every run), z3 4.8.12 over a pipe, native replay through go test -overlay"}],
 "checks":[chk(p) for p in claimed],
 "notes":"Bounded claims only: every evidence file states the bounds run, the functions encoded, stubs used, queries and solver time. See DESIGN.md.",
 "not_applicable":[{"property_id":p,"reason":claims.get(p,{}).get("na","check not registered yet in this commit (work in progress)")} for p in props if p not in claimed]}
json.dump(m,open(f'{V}/MANIFEST.json','w'),indent=1)
print("claimed:",claimed)
