#!/usr/bin/env python3
"""Cross-solver diff of the queries gosym really asked.

usage: crosscheck.py <out.json> <harness-spec>...      harness-spec = dir:name:mode[:maxpaths]

For every harness the engine is run once with GOSYM_SMT_TRACE (2 workers, optionally capped number of paths); the
recorded SMT-LIB2 scripts (one per solver process, every check-sat annotated with z3 4.8.12's answer) are replayed
unchanged on z3-new (5.1.0) and on cvc5 (--incremental; the z3-only timeout option is replaced by --tlimit-per) and the
sequence of sat/unsat answers is compared. "unknown"/timeout on either side is not a disagreement (it is counted);
sat-vs-unsat is. Exit 1 on any disagreement or when a solver printed an (error line.
Scratch files live under /verif/out/trace and are removed afterwards.
"""
import json, os, re, subprocess, sys, time, glob, shutil

VERIF = os.environ.get("VERIF_DIR", os.path.dirname(os.path.dirname(os.path.abspath(__file__))))
TR = os.path.join(VERIF, "out", "trace")
ANS = {"sat", "unsat", "unknown", "timeout"}


def replay(script, solver):
    if solver == "z3-new":
        cmd = ["z3-new", "-in"]
        text = script
    else:
        cmd = ["cvc5", "--incremental", "--tlimit-per=10000", "--produce-models"]
        out = []
        for line in script.split("\n"):
            if line.startswith("(set-option :timeout"):
                out.append("(set-logic ALL)")
                continue
            out.append(line)
        text = "\n".join(out)
    t0 = time.time()
    try:
        p = subprocess.run(cmd, input=text, capture_output=True, text=True, timeout=3600)
        out = p.stdout
    except subprocess.TimeoutExpired:
        return None, 0, time.time() - t0
    answers, errors = [], 0
    for line in out.split("\n"):
        line = line.strip()
        if line in ANS:
            answers.append(line)
        elif line.startswith("(error"):
            # get-value after a non-sat answer is the only tolerated error
            if "model" in line or "get-value" in line or "sat state" in line.lower() or "SAT" in line:
                continue
            errors += 1
    return answers, errors, time.time() - t0


def main():
    outp = sys.argv[1]
    res = {"solvers": {"reference": "z3 4.8.12 (the engine's own run)", "others": ["z3-new 5.1.0", "cvc5 1.0 --incremental"]},
           "harnesses": [], "disagreements": 0}
    bad = 0
    for spec in sys.argv[2:]:
        parts = spec.split(":")
        d, name, mode = parts[0], parts[1], parts[2]
        maxpaths = parts[3] if len(parts) > 3 else "0"
        shutil.rmtree(TR, ignore_errors=True)
        os.makedirs(TR)
        env = dict(os.environ, GOSYM_SMT_TRACE=os.path.join(TR, name))
        cmd = [os.path.join(VERIF, "bin", "gosym"), "run", "-dir", d, "-harness", name, "-mode", mode, "-workers", "2"]
        if maxpaths != "0":
            cmd += ["-maxpaths", maxpaths]
        subprocess.run(cmd, env=env, capture_output=True, text=True, timeout=3600)
        h = {"harness": name, "mode": mode, "queries": 0, "by_solver": {}}
        scripts = []
        for f in sorted(glob.glob(os.path.join(TR, name + ".*.smt2"))):
            s = open(f).read()
            ref = re.findall(r"^; => (\S+)$", s, flags=re.M)
            scripts.append((s, ref))
            h["queries"] += len(ref)
        for solver in ("z3-new", "cvc5"):
            st = {"agree": 0, "other_unknown": 0, "reference_unknown": 0, "disagree": 0, "errors": 0, "seconds": 0.0, "incomplete": 0}
            for s, ref in scripts:
                ans, errs, secs = replay(s, solver)
                st["seconds"] += round(secs, 1)
                if ans is None or len(ans) != len(ref):
                    st["incomplete"] += 1
                    st["errors"] += errs if ans is not None else 0
                    if ans is None:
                        continue
                st["errors"] += errs
                for a, b in zip(ref, ans):
                    if a in ("unknown", "timeout"):
                        st["reference_unknown"] += 1
                    elif b in ("unknown", "timeout"):
                        st["other_unknown"] += 1
                    elif a == b:
                        st["agree"] += 1
                    else:
                        st["disagree"] += 1
            st["seconds"] = round(st["seconds"], 1)
            h["by_solver"][solver] = st
            bad += st["disagree"]
            res["disagreements"] += st["disagree"]
            print(f"{name} [{mode}] {solver}: {st}", flush=True)
        res["harnesses"].append(h)
    shutil.rmtree(TR, ignore_errors=True)
    json.dump(res, open(outp, "w"), indent=1)
    sys.exit(1 if bad else 0)


if __name__ == "__main__":
    main()
