#!/bin/bash
# usage: seedsweep.sh <tier> [seed-id...]   - applies each stored seed to /repo, runs the quick/thorough check of the
# property it breaks (and of every property named in caught_by), reverts; prints one line per seed.
# Only to be run when nothing else uses /repo.
cd /verif
tier=$1; shift
seeds="$@"
[ -z "$seeds" ] && seeds=$(ls seeded)
for id in $seeds; do
  d=/verif/seeded/$id
  props=$(python3 -c "
import json,re,sys
m=json.load(open('$d/meta.json'))
ps=set(re.findall(r'\b(C\d\d) (?:quick|thorough)', ' '.join(m.get('caught_by',[]))))
print(' '.join(sorted(ps)) or m['breaks'])")
  git -C /repo apply $d/patch.diff 2>/dev/null || { echo "$id: PATCH DOES NOT APPLY"; continue; }
  res=""
  for p in $props; do
    timeout 3600 ./bin/gosym check $p --tier $tier > out/sweep-$id-$p.log 2>&1
    res="$res $p:$(grep -c '^VIOLATION' out/sweep-$id-$p.log)"
  done
  git -C /repo checkout -- .
  echo "$id:$res"
done
git -C /repo status --short | head -3
