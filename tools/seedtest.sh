#!/bin/bash
# usage: seedtest.sh <dir with patch.diff demo_test.go> <pkgdir-for-demo> <tier> <property...>
# 1. confirms in a scratch worktree that the change compiles, the existing suite passes with it, the demo fails with it
#    and passes without it; 2. applies it to /repo, runs the given checks, reverts.
set -u
export GOFLAGS=-mod=mod GOPROXY=off GOSUMDB=off GOTOOLCHAIN=local
d=$1; pkg=$2; tier=$3; shift 3
w=/tmp/seedchk
git -C /repo worktree remove --force $w 2>/dev/null
git -C /repo worktree add -q --detach $w HEAD || exit 2
( cd $w && git apply $d/patch.diff ) || { echo "PATCH DOES NOT APPLY"; git -C /repo worktree remove --force $w; exit 2; }
cp $d/demo_test.go $w/$pkg/zz_seed_demo_test.go
( cd $w && go build ./... 2>&1 | grep -v WARNING | head -5 )
suite=$( cd $w && mv $pkg/zz_seed_demo_test.go /tmp/zz_demo.go && go test -vet=off -count=1 . ./internal/ ./datadictionary/ ./store/file/ ./store/memory/ ./store/sql/ 2>&1 | grep -v WARNING | grep -c "^ok" ; mv /tmp/zz_demo.go $pkg/zz_seed_demo_test.go)
with=$( cd $w && go test -vet=off -count=1 -run 'Seed|seed|Demo' ./$pkg/ 2>&1 | grep -v WARNING | tail -1 | cut -c1-60)
( cd $w && git apply -R $d/patch.diff )
without=$( cd $w && go test -vet=off -count=1 -run 'Seed|seed|Demo' ./$pkg/ 2>&1 | grep -v WARNING | tail -1 | cut -c1-60)
git -C /repo worktree remove --force $w
echo "suite-ok-packages=$suite/6 | demo with change: $with | demo without: $without"
git -C /repo apply $d/patch.diff || exit 2
cd /verif
for p in "$@"; do
  timeout 3600 ./bin/gosym check $p --tier $tier > out/seed-$p.log 2>&1; rc=$?
  echo "  check $p rc=$rc: $(grep -c '^VIOLATION' out/seed-$p.log) violations; $(grep '^VIOLATION' -A1 out/seed-$p.log | grep harness= | cut -c1-160 | head -3 | tr '\n' ';')"
done
git -C /repo checkout -- .
git -C /repo status --short | head -3
