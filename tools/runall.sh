#!/bin/bash
# runs the quick (or given tier) check of every claimed property; prints one summary line each
tier=${1:-quick}; shift
here=$(cd "$(dirname "$0")/.." && pwd)
export VERIF_DIR=$here
cd $here
[ -x bin/gosym ] || (cd engine && GOFLAGS=-mod=mod GOPROXY=off GOSUMDB=off GOTOOLCHAIN=local go build -o ../bin/gosym .)
props=${@:-$(python3 -c "import json;print(' '.join(c['property_id'] for c in json.load(open('$here/MANIFEST.json'))['checks']))")}
mkdir -p out
for p in $props; do
  s=$(date +%s)
  timeout 4000 ./bin/gosym check $p --tier $tier > out/check-$p.log 2>&1; rc=$?
  e=$(( $(date +%s) - s ))
  echo "$p rc=$rc ${e}s $(grep -c '^VIOLATION' out/check-$p.log) viol $(grep -c '^INCONCLUSIVE\|^ENGINE-MISMATCH' out/check-$p.log) inconcl | $(tail -1 out/check-$p.log | cut -c1-200)"
done
